//! mirfacts: rustc_private driver exporting structured MIR, type tables, evaluated
//! constants and a per-instance call graph of the selected crates as JSON facts.
//!
//! Invoked as RUSTC_WORKSPACE_WRAPPER: argv[1] is the real rustc and is dropped.
//! Environment:
//!   MIRFACTS_OUT     directory for <crate>.json (one write per process)
//!   MIRFACTS_CRATES  comma separated crate names to export (default "allsorts")
//!   MIRFACTS_NONCE   copied into the fact file so the CLI can detect replays
#![feature(rustc_private)]
#![allow(clippy::all)]

extern crate rustc_abi;
extern crate rustc_data_structures;
extern crate rustc_driver;
extern crate rustc_hir;
extern crate rustc_index;
extern crate rustc_interface;
extern crate rustc_middle;
extern crate rustc_span;

mod json;
mod body;
mod tables;
mod instances;

use json::J;
use rustc_driver::Compilation;
use rustc_hir::def_id::LOCAL_CRATE;
use rustc_interface::interface;
use rustc_middle::ty::TyCtxt;

pub const SCHEMA: i128 = 7;

struct Cb {
    crates: Vec<String>,
    out: String,
    nonce: String,
}

impl rustc_driver::Callbacks for Cb {
    fn after_analysis<'tcx>(&mut self, _c: &interface::Compiler, tcx: TyCtxt<'tcx>) -> Compilation {
        let name = tcx.crate_name(LOCAL_CRATE).to_string();
        if !self.crates.iter().any(|c| *c == name) {
            return Compilation::Continue;
        }
        // skip build scripts / test harness compilations of the same name
        if tcx.sess.opts.test {
            return Compilation::Continue;
        }
        let t0 = std::time::Instant::now();
        let bodies = body::export_bodies(tcx);
        let t1 = t0.elapsed().as_secs_f64();
        let tabs = tables::export_tables(tcx);
        let t2 = t0.elapsed().as_secs_f64();
        let inst = instances::export_instances(tcx);
        let t3 = t0.elapsed().as_secs_f64();
        let cfgs: Vec<J> = {
            let mut v: Vec<String> = tcx
                .sess
                .config
                .iter()
                .filter_map(|(k, val)| {
                    if k.as_str() == "feature" {
                        val.map(|x| x.to_string())
                    } else {
                        None
                    }
                })
                .collect();
            v.sort();
            v.into_iter().map(J::Str).collect()
        };
        let root = J::Obj(vec![
            ("schema", J::Int(SCHEMA)),
            ("crate", J::s(name.clone())),
            ("nonce", J::s(self.nonce.clone())),
            ("rustc", J::s(option_env!("CFG_VERSION").unwrap_or("nightly").to_string())),
            ("features", J::Arr(cfgs)),
            (
                "timing",
                J::Obj(vec![
                    ("bodies_s", J::s(format!("{:.2}", t1))),
                    ("tables_s", J::s(format!("{:.2}", t2 - t1))),
                    ("instances_s", J::s(format!("{:.2}", t3 - t2))),
                ]),
            ),
            ("bodies", bodies),
            ("tables", tabs),
            ("instances", inst),
        ]);
        let mut s = String::with_capacity(64 << 20);
        root.write(&mut s);
        let path = format!("{}/{}.json", self.out, name);
        let tmp = format!("{}.tmp{}", path, std::process::id());
        std::fs::write(&tmp, s).expect("mirfacts: cannot write facts");
        std::fs::rename(&tmp, &path).expect("mirfacts: cannot rename facts");
        Compilation::Continue
    }
}

fn main() {
    let mut args: Vec<String> = std::env::args().collect();
    // RUSTC_WORKSPACE_WRAPPER passes the real rustc path as argv[1].
    if args.len() > 1 && (args[1].ends_with("rustc") || args[1].contains("/rustc")) {
        args.remove(1);
    }
    let crates = std::env::var("MIRFACTS_CRATES").unwrap_or_else(|_| "allsorts".into());
    let out = std::env::var("MIRFACTS_OUT").unwrap_or_else(|_| ".".into());
    let nonce = std::env::var("MIRFACTS_NONCE").unwrap_or_default();
    let mut cb = Cb {
        crates: crates.split(',').map(|s| s.trim().to_string()).collect(),
        out,
        nonce,
    };
    rustc_driver::run_compiler(&args, &mut cb);
}
