//! Compile-fail witnesses: properties of allsorts' public surface that must hold for every
//! downstream program. Each `compile_fail,E....` example is paired with a compiling twin that
//! differs only by the offending line, so a witness cannot pass because of a wrong path.
//! Run with `cargo +nightly test --doc --offline` (the error codes are only checked on nightly).

/// W1 (C14 R14-I): a `ReadCtxt` cannot be built by literal outside the reader — its cursor is private.
/// ```compile_fail,E0451
/// use allsorts::binary::read::{ReadCtxt, ReadScope};
/// let scope = ReadScope::new(&[1u8, 2, 3]);
/// let _ctxt = ReadCtxt { scope, offset: 100 };
/// ```
/// twin:
/// ```
/// use allsorts::binary::read::ReadScope;
/// let scope = ReadScope::new(&[1u8, 2, 3]);
/// let _ctxt = scope.ctxt();
/// ```
pub struct W1;

/// W2 (C14 R14-I): `ReadCtxt::new` is private: the only way to a cursor is `ReadScope::ctxt()` (offset 0).
/// ```compile_fail,E0624
/// use allsorts::binary::read::{ReadCtxt, ReadScope};
/// let scope = ReadScope::new(&[1u8, 2, 3]);
/// let _ctxt = ReadCtxt::new(scope);
/// ```
/// twin:
/// ```
/// use allsorts::binary::read::ReadScope;
/// let scope = ReadScope::new(&[1u8, 2, 3]);
/// let mut ctxt = scope.ctxt();
/// assert_eq!(ctxt.read_u8().unwrap(), 1);
/// ```
pub struct W2;

/// W3 (C14 R14-D): the unchecked kernels are private to the reader.
/// ```compile_fail,E0624
/// use allsorts::binary::read::ReadScope;
/// let mut ctxt = ReadScope::new(&[1u8]).ctxt();
/// let _v = unsafe { ctxt.read_unchecked_u16be() };
/// ```
/// twin:
/// ```
/// use allsorts::binary::read::ReadScope;
/// let mut ctxt = ReadScope::new(&[1u8]).ctxt();
/// assert!(ctxt.read_u16be().is_err());
/// ```
pub struct W3;

/// W4 (C14 R14-U): `ReadUnchecked::read_unchecked` cannot be called from safe code.
/// ```compile_fail,E0133
/// use allsorts::binary::read::{ReadScope, ReadUnchecked};
/// use allsorts::binary::U16Be;
/// let mut ctxt = ReadScope::new(&[1u8]).ctxt();
/// let _v = U16Be::read_unchecked(&mut ctxt);
/// ```
/// twin:
/// ```
/// use allsorts::binary::read::ReadScope;
/// use allsorts::binary::U16Be;
/// let mut ctxt = ReadScope::new(&[1u8]).ctxt();
/// assert!(ctxt.read::<U16Be>().is_err());
/// ```
pub struct W4;

/// W5 (C14 R14-I): the stride and window of a `ReadArray` are private.
/// ```compile_fail,E0616
/// use allsorts::binary::read::ReadScope;
/// use allsorts::binary::U16Be;
/// let mut ctxt = ReadScope::new(&[0u8, 1, 0, 2]).ctxt();
/// let mut array = ctxt.read_array::<U16Be>(2).unwrap();
/// array.stride = 1;
/// ```
/// twin:
/// ```
/// use allsorts::binary::read::ReadScope;
/// use allsorts::binary::U16Be;
/// let mut ctxt = ReadScope::new(&[0u8, 1, 0, 2]).ctxt();
/// let array = ctxt.read_array::<U16Be>(2).unwrap();
/// assert_eq!(array.len(), 2);
/// ```
pub struct W5;

/// W6 (C13 T13-PRIV): a variation tuple of arbitrary length cannot be forged in safe code —
/// `OwnedTuple`'s storage is private; the checked constructors are `FvarTable::normalize` and
/// `FvarTable::owned_tuple`.
/// ```compile_fail,E0423
/// use allsorts::tables::variable_fonts::OwnedTuple;
/// let _t = OwnedTuple(Default::default());
/// ```
/// twin:
/// ```
/// use allsorts::tables::variable_fonts::OwnedTuple;
/// fn takes(_t: &OwnedTuple) {}
/// let _f: fn(&OwnedTuple) = takes;
/// ```
pub struct W6;

/// W7 (C13): `Tuple::from_raw_parts` is the only unchecked constructor and it is `unsafe`.
/// ```compile_fail,E0133
/// use allsorts::tables::variable_fonts::Tuple;
/// use allsorts::tables::F2Dot14;
/// let v = [F2Dot14::from(0.5)];
/// let _t = Tuple::from_raw_parts(v.as_ptr(), v.len());
/// ```
/// twin:
/// ```
/// use allsorts::tables::variable_fonts::Tuple;
/// use allsorts::tables::F2Dot14;
/// let v = [F2Dot14::from(0.5)];
/// let _t = unsafe { Tuple::from_raw_parts(v.as_ptr(), v.len()) };
/// ```
pub struct W7;

/// W8 (C08 T08-TS): the id-space marker of the cmap subsetter cannot be named, let alone forged, downstream.
/// ```compile_fail,E0603
/// use allsorts::tables::cmap::subset::MappingsToKeep;
/// ```
/// twin:
/// ```
/// use allsorts::tables::cmap::CmapSubtable;
/// fn takes(_t: &CmapSubtable<'_>) {}
/// ```
pub struct W8;
