"""Audits that lean on a check made in another function.

An audited ledger entry says, in prose, why a site cannot fail; for some the reason is a test that lives elsewhere ("find_strike
picked a record for which contains_glyph(glyph_id) held, so glyph_id >= first_glyph_index"). The count on the entry notices a new
site in the audited function, not a weakening of the function the reason cites. Such an entry can carry

    "relies_on": [{"fn": "<path of a bool function>", "true_implies": ["Ge(arg:glyph_id, *arg:self.first_glyph_index)", ...]}]

and this rule re-establishes, on every run, that the cited function still returns true only when each listed comparison holds:
comparisons whose edge dominates every non-false result, the result expression itself, or the bounds of a `(a..=b).contains(&x)`
result. Comparisons are written as sym.show prints them, either orientation."""
import json
import os

import guards
import sym

LEDGERS = ("arith", "index", "explicit_panic", "narrowing", "division", "alloc", "loops")


def fn_truths(body):
    """[(op, a, b)] that hold whenever the bool function returns true"""
    out = list(guards.closure_truth(body))
    prov = sym.Prov(body)
    # the result is `range.contains(&x)`
    ret = sym.strip(prov.local(0))
    if ret[0] == "call" and (ret[4] or ret[1] or "").endswith("::contains") and len(ret[2]) == 2:
        rb = guards.range_bounds(ret[2][0])
        if rb is not None:
            x = guards.canon(("deref", ret[2][1]))
            out.append(("Ge", x, rb[0]))
            out.append(("Le" if rb[2] else "Lt", x, rb[1]))
    return out


def _forms(op, a, b):
    a, b = sym.show(sym.strip(a)), sym.show(sym.strip(b))
    return {"%s(%s, %s)" % (op, a, b), "%s(%s, %s)" % (guards.CMP_FLIP[op], b, a)}


def entries(verif):
    for name in LEDGERS:
        p = os.path.join(verif, "ledger", name + ".jsonl")
        if not os.path.isfile(p):
            continue
        for line in open(p):
            line = line.strip()
            if not line:
                continue
            e = json.loads(line)
            if e.get("relies_on"):
                yield name, e


def rule_relies(run, fx, rule="C01-r", floors=True, floor_n=1):
    import extract
    run.rule(rule, "an audit that leans on a test made in another function: for every ledger entry with a relies_on clause, the cited bool function "
                   "still returns true only when each listed comparison holds (read from the edges that dominate its non-false results, its result "
                   "expression, or the bounds of a range contains) - weakening the cited test re-opens the audit")
    n = 0
    for ledger, e in entries(extract.VERIF):
        for dep in e["relies_on"]:
            b = fx.body(dep["fn"])
            if b is None:
                # the audited function is not in this configuration either: nothing to establish
                if not any(x.root == e["key"].split("|")[1] for x in fx.bodies):
                    continue
                run.fail(rule, "relies|%s|%s" % (e["key"], dep["fn"]), "the audit of %s relies on %s, which no longer exists" % (e["key"], dep["fn"]))
                n += 1
                continue
            have = set()
            for op, x, y in fn_truths(b):
                if op in guards.CMP_FLIP:
                    have |= _forms(op, x, y)
            for want in dep.get("true_implies", []):
                n += 1
                if want in have:
                    run.ok(rule, "%s: true implies %s (audit %s)" % (dep["fn"], want, e["key"]))
                else:
                    run.fail(rule, "relies|%s|%s|%s" % (e["key"], dep["fn"], want),
                             "the audited site %s is safe only because %s returns true only when %s; the function no longer establishes that "
                             "(it establishes: %s)" % (e["key"], dep["fn"], want, "; ".join(sorted(have))[:300] or "nothing"), "%s:%s" % (b.file, b.line))
    if floors:
        run.floor(rule, "comparisons that audits rely on", n, floor_n)
    return n
