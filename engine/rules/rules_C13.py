"""C13 — user coordinates normalise per fvar and avar: the structural clauses.

T13-LEN    a tuple of the wrong length is rejected before anything is produced
T13-CLAMP  every value pushed to the result tuple was produced by clamp(-1, 1) as its last step
T13-ORD    the font-supplied clamp bounds in default_normalize are ordered before clamping
T13-DIV    Fixed / F2Dot14 division guards a zero divisor (rule C01-d on src/tables.rs)
T13-PRIV   a Tuple/OwnedTuple cannot be forged at the wrong length by safe code (field privacy)
"""
from fractions import Fraction
import re

import arith
import guards
import reach
import sym
from facts import callee_is, op_local

LEVEL = "other"
EXPLANATION = (
    "Decides the clauses of C13 that are visible in the shape of the code: (T13-LEN) in FvarTable::normalize the comparison of the user "
    "tuple's length with the axis count sends the unequal case to an Err return and dominates every push to the result, so a tuple of the "
    "wrong length is rejected for every input; (T13-CLAMP) on every path, the value converted and pushed to the result is, by reaching "
    "definitions, the result of clamp(Fixed(-1), Fixed(1)) — directly after the avar map, or as the return value of default_normalize — so "
    "no arithmetic follows the final clamp; (T13-ORD) the bounds handed to the first clamp are min(min, default) and max(max, default) of "
    "the same default, hence ordered (Ord::clamp panics otherwise); (T13-DIV) the fixed-point division operators test the divisor against "
    "zero before dividing; (T13-PRIV) the tuple wrappers keep their storage private so callers cannot bypass the length check."
)
NOT_DECIDED = (
    "default_normalize is decided in exact rational arithmetic (T13-NORM: min/default/max map to -1/0/+1, the piecewise formula, both clamps); what "
    "remains undecided: accuracy to one 2.14 unit under 16.16 rounding, the avar segment interpolation arithmetic, monotonicity under rounding."
)
ASSUMPTIONS = ["Ord::clamp / Ord::min / Ord::max on Fixed (derived Ord over i32) behave as documented"]

NORMALIZE = "tables::variable_fonts::fvar::FvarTable::<'_>::normalize"
DEFAULT_NORMALIZE = "tables::variable_fonts::fvar::default_normalize"


def is_fixed_const(fx, t, want):
    """Fixed::from(const want)"""
    t = sym.strip(t)
    if t[0] == "call" and (t[4] or "").endswith("From::from") and len(t[2]) == 1:
        a = sym.strip(t[2][0])
        return a[0] == "c" and a[1] == want
    # sym.strip removes From::from wrappers: the bare constant is what remains
    return t[0] == "c" and t[1] == want


def is_unit_clamp(fx, t):
    """term is a call to clamp(x, -1, 1) carried out on the 16.16 type: a clamp after the narrowing to 2.14 comes too late,
    F2Dot14::from wraps values outside [-2, 2)"""
    if (t[0] == "call" and (t[4] or t[1] or "").endswith("::clamp") and len(t[2]) == 3
            and (len(t) <= 5 or (t[5] or "tables::Fixed") == "tables::Fixed")
            and is_fixed_const(fx, t[2][1], -1) and is_fixed_const(fx, t[2][2], 1)):
        return True
    # the same written out: x.max(-1).min(1) or x.min(1).max(-1) on the 16.16 type
    def mm(u, name):
        return u[0] == "call" and (u[4] or u[1] or "").endswith("Ord::" + name) and len(u[2]) == 2 and (len(u) <= 5 or (u[5] or "tables::Fixed") == "tables::Fixed")
    if mm(t, "min") and is_fixed_const(fx, t[2][1], 1):
        inner = sym.strip(t[2][0])
        return mm(inner, "max") and is_fixed_const(fx, inner[2][1], -1)
    if mm(t, "max") and is_fixed_const(fx, t[2][1], -1):
        inner = sym.strip(t[2][0])
        return mm(inner, "min") and is_fixed_const(fx, inner[2][1], 1)
    return False


def returns_unit_clamp(fx, path):
    """every definition of _0 reaching a return of `path` is clamp(_, -1, 1)"""
    b = fx.body(path)
    if b is None:
        return False
    prov = sym.Prov(b)
    rets = b.return_blocks()
    if not rets:
        return False
    for rb in rets:
        rd = reach.ReachingDefs(b, 0)
        ds = rd.at(rb, "t")
        if not ds:
            return False
        for d in ds:
            if d is None or not is_unit_clamp(fx, sym.strip(reach.def_term(b, prov, d))):
                return False
    return True


def t13_len(run, fx):
    rule = "T13-LEN"
    run.rule(rule, "FvarTable::normalize: a switch on (user_tuple.len() ==/!= usize::from(self.axis_count())) whose unequal edge returns Err "
                   "without producing anything, and whose equal edge dominates every push to the result and every Ok return")
    b = fx.body(NORMALIZE)
    if b is None:
        return run.anchor_missing(rule, NORMALIZE)
    prov = sym.Prov(b)
    pushes = [bi for bi, t in b.calls() if callee_is(t, "::push") and "F2Dot14" in (t["callee"].get("args") or [""])[0]]
    if not pushes:
        return run.anchor_missing(rule, "push of F2Dot14 in FvarTable::normalize")
    ok_blocks = []
    for bi, blk in enumerate(b.blocks):
        if not b.reachable(bi):
            continue
        for s in blk["s"]:
            if s["k"] == "assign" and s["p"]["l"] == 0 and not s["p"]["p"] and s["rv"]["k"] == "agg" and s["rv"].get("vname") == "Ok":
                ok_blocks.append(bi)
    found = None
    for tb, fb, op, x, y, sw in guards.branch_conditions(b, prov):
        if op not in ("Eq", "Ne"):
            continue
        x1, y1 = sym.strip(x), sym.strip(y)

        def is_len(t):
            if t[0] == "call" and (t[4] or "").endswith("::len") and t[2]:
                r = sym.strip(t[2][0])
                while r[0] in ("ref", "deref"):
                    r = sym.strip(r[1])
                return r[0] == "arg" and r[1] == 2
            return False

        def is_axis_count(t):
            while t[0] == "cast":
                t = sym.strip(t[4])
            return t[0] == "call" and (t[1] or "").endswith("::axis_count")
        if not ((is_len(x1) and is_axis_count(y1)) or (is_len(y1) and is_axis_count(x1))):
            continue
        eq_blk = tb if op == "Eq" else fb
        ne_blk = fb if op == "Eq" else tb
        found = (eq_blk, ne_blk, sw)
    if not found:
        return run.fail(rule, "normalize:no-length-test", "no comparison of user_tuple.len() with axis_count() guards the normalisation "
                                                         "(or it is not an ==/!= test): a tuple of the wrong length is not rejected", "%s:%s" % (b.file, b.line))
    eq_blk, ne_blk, sw = found
    bad = []
    if eq_blk is None:
        bad.append("the equal-length edge is not a dedicated block")
    else:
        for p in pushes + ok_blocks:
            if not b.dominates(eq_blk, p):
                bad.append("bb%d (push/Ok) is not dominated by the equal-length edge" % p)
    # the unequal edge must reach a return without a push
    start = ne_blk if ne_blk is not None else None
    if start is None:
        bad.append("the unequal-length edge is not a dedicated block")
    else:
        seen = b.reach_from(start)
        if seen & set(pushes) or seen & set(ok_blocks):
            bad.append("the unequal-length edge can reach a push or an Ok return")
        errs = False
        for bi in seen:
            for s in b.stmts(bi):
                if s["k"] == "assign" and s["p"]["l"] == 0 and s["rv"]["k"] == "agg" and s["rv"].get("vname") == "Err":
                    errs = True
        if not errs:
            bad.append("the unequal-length edge does not return Err")
    if bad:
        return run.fail(rule, "normalize:length-test-weak", "; ".join(bad), b.loc(b.term(sw)))
    run.ok(rule, "normalize: len() != axis_count() => Err dominates %d push site(s) and %d Ok return(s)" % (len(pushes), len(ok_blocks)))


def t13_clamp(run, fx):
    rule = "T13-CLAMP"
    run.rule(rule, "every value pushed to the result tuple in FvarTable::normalize is F2Dot14::from(v) where every definition of v reaching the "
                   "push is clamp(_, Fixed(-1), Fixed(1)) - a clamp of the 16.16 value, before the narrowing conversion - or a call to a function all of "
                   "whose returns are such a clamp")
    b = fx.body(NORMALIZE)
    if b is None:
        return run.anchor_missing(rule, NORMALIZE)
    prov = sym.Prov(b)
    n = 0
    for bi, t in b.calls():
        if not (callee_is(t, "::push") and "F2Dot14" in (t["callee"].get("args") or [""])[0]):
            continue
        n += 1
        arg = t["args"][1]
        # strip the F2Dot14::from conversion but remember where its operand was read
        term = prov.op(arg)
        holder = None
        if term[0] == "call" and (term[4] or "").endswith(("From::from", "Into::into")) and len(term[2]) == 1:
            cbb = term[3]
            ct = b.term(cbb)
            holder = op_local(ct["args"][0])
            inner = term[2][0]
        else:
            inner = term
        at = (bi, "t")
        if holder is not None:
            up = reach.use_point(b, holder)
            if up:
                at = up
        alts = reach.sources(b, prov, inner, at)
        bad = []
        for a in alts:
            if isinstance(a, tuple) and len(a) == 2 and isinstance(a[1], tuple) and not isinstance(a[0], str):
                dt, d = a
            else:
                dt, d = a, None
            if dt[0] == "entry":
                bad.append("value on entry")
            elif is_unit_clamp(fx, dt):
                continue
            elif dt[0] == "call" and dt[1] and returns_unit_clamp(fx, dt[1]):
                continue
            else:
                bad.append(sym.show(dt)[:90])
        if bad or not alts:
            run.fail(rule, "normalize:push-unclamped", "a value reaches the result without clamp(-1, 1) as its last step: %s" % ("; ".join(bad) or "no definition found"), b.loc(t))
        else:
            run.ok(rule, "push(F2Dot14::from(v)): all %d reaching definition(s) of v are clamp(-1, 1) results" % len(alts))
    if n == 0:
        run.anchor_missing(rule, "push of F2Dot14 in FvarTable::normalize")


def t13_ord(run, fx):
    rule = "T13-ORD"
    run.rule(rule, "in default_normalize the clamp with font-supplied bounds receives lo = min(_, d) and hi = max(_, d) over the same d (so lo <= hi), "
                   "and every other clamp there has constant ordered bounds")
    b = fx.body(DEFAULT_NORMALIZE)
    if b is None:
        return run.anchor_missing(rule, DEFAULT_NORMALIZE)
    prov = sym.Prov(b)
    # first choice: read the function as a decision list and evaluate every path on a grid that contains all orderings and ties of the
    # coordinate and the three axis values, malformed axes (min > default, default > max, min > max) included: a clamp whose bounds
    # arrive the wrong way round on any of them is the panic this rule is about, however the bounds were computed
    import fnread
    try:
        grid = [Fraction(k, 2) for k in (-4, -2, -1, 0, 1, 2, 4)]
        places = {"minv": "(*axis).min_value", "default": "(*axis).default_value", "maxv": "(*axis).max_value"}
        cnt, bad = fnread.compare(b, ["coord", "minv", "default", "maxv"], grid, lambda **kw: "no-panic", None, places=places, outcome=lambda v: "panics" if v == "panic" else "no-panic")
        if bad:
            a = bad[0][0]
            run.fail(rule, "default_normalize:clamp-unordered", "default_normalize reaches a clamp whose lower bound exceeds its upper bound, e.g. for coord=%s on an axis min=%s default=%s max=%s: "
                     "Ord::clamp panics" % (a["coord"], a["minv"], a["default"], a["maxv"]), "%s:%s" % (b.file, b.line))
        else:
            run.ok(rule, "default_normalize: no clamp with unordered bounds on %d assignments (all orderings of coord, min, default, max)" % cnt)
        return
    except fnread.Undecided as e:
        run.notes.append("%s: default_normalize not readable as a decision list (%s); falling back to the shape of the bounds" % (rule, e))
    n = 0
    for bi, t in b.calls():
        if not callee_is(t, "::clamp"):
            continue
        n += 1
        lo, hi = sym.strip(prov.op(t["args"][1])), sym.strip(prov.op(t["args"][2]))
        if is_fixed_const(fx, lo, -1) and is_fixed_const(fx, hi, 1):
            run.ok(rule, "clamp(_, -1, 1): constant ordered bounds")
            continue
        why = ordered_by_min_max(lo, hi)
        if why:
            run.ok(rule, "clamp(coord, lo, hi): %s" % why)
        else:
            run.fail(rule, "default_normalize:clamp-unordered", "clamp bounds are not ordered by construction: lo=%s hi=%s" % (sym.show(lo)[:60], sym.show(hi)[:60]), b.loc(t))
    if n < 2:
        run.anchor_missing(rule, "two clamp calls in default_normalize")


def ordered_by_min_max(lo, hi):
    """lo = min(a, d), hi = max(b, d) with a common operand d  =>  lo <= d <= hi"""
    if lo[0] == "call" and hi[0] == "call" and (lo[4] or "").endswith("Ord::min") and (hi[4] or "").endswith("Ord::max"):
        la = [sym.norm(sym.strip(x)) for x in lo[2]]
        ha = [sym.norm(sym.strip(x)) for x in hi[2]]
        common = [x for x in la if x in ha]
        if common:
            return "lo = min(_, d), hi = max(_, d) share d = %s" % sym.show(common[0])[:40]
    return None


def t13_priv(run, fx):
    rule = "T13-PRIV"
    run.rule(rule, "the storage fields of fvar::Tuple and fvar::OwnedTuple are private, and the only non-unsafe public constructors are "
                   "FvarTable::normalize / FvarTable::owned_tuple (both length-checked)")
    for path in ("tables::variable_fonts::fvar::OwnedTuple", "tables::variable_fonts::fvar::Tuple"):
        adt = fx.adt(path)
        if adt is None:
            run.anchor_missing(rule, path)
            continue
        pubf = [f["name"] for v in adt["variants"] for f in v["fields"]
                if f.get("pub") or not str(f.get("vis", "")).endswith("::tables::variable_fonts::fvar))")]
        if pubf:
            run.fail(rule, "pub-field:%s" % path, "field(s) %s of %s are visible outside module fvar: a tuple of arbitrary length can be forged by safe code" % (pubf, path))
        else:
            run.ok(rule, "%s: all fields private" % path)
    # who constructs OwnedTuple by literal
    lit = []
    for b in fx.bodies:
        for bi, blk in enumerate(b.blocks):
            if not b.reachable(bi):
                continue
            for s in blk["s"]:
                if s["k"] == "assign" and s["rv"]["k"] == "agg" and s["rv"].get("adt") == "tables::variable_fonts::fvar::OwnedTuple":
                    lit.append(b)
    allowed = ("FvarTable::<'_>::normalize", "FvarTable::<'_>::owned_tuple", "fvar::Tuple::<'a>::to_owned", "as std::borrow::ToOwned>::to_owned",
               "as std::clone::Clone>::clone")
    for b in lit:
        if any(a in b.root for a in allowed):
            run.ok(rule, "OwnedTuple literal in %s (audited constructor)" % b.root)
        else:
            run.fail(rule, "ctor:%s" % b.root, "OwnedTuple is constructed in %s, which is not one of the length-checked constructors" % b.root, "%s:%s" % (b.file, b.line))
    if not lit:
        run.anchor_missing(rule, "OwnedTuple literals")


def t13_dom(run, fx):
    rule = "T13-DOM"
    run.rule(rule, "the interpolation arithmetic of default_normalize and avar SegmentMap::normalize is carried out in 16.16 Fixed: every "
                   "Add/Sub/Mul/Div/Neg operator call in them resolves to the tables::Fixed implementation (2.14 operands are widened first)")
    for path in (DEFAULT_NORMALIZE, "tables::variable_fonts::avar::SegmentMap::<'_>::normalize"):
        b0 = fx.body(path)
        if b0 is None:
            run.anchor_missing(rule, path)
            continue
        b = b0
        n = 0
        bad = []
        # the function and the private helpers of its module that it delegates the arithmetic to (`Self::interpolate(..)`)
        for hb in fx.with_helpers(b0, "tables::variable_fonts::"):
            for bi, t in hb.calls():
                p = t["callee"].get("path") or ""
                if re.match(r"^std::ops::(Add|Sub|Mul|Div|Neg)::", p):
                    n += 1
                    rp = t["callee"].get("rpath") or ""
                    if not rp.startswith("<tables::Fixed as std::ops::"):
                        bad.append(rp or p)
            for bi, blk in enumerate(hb.blocks):
                for s_ in blk["s"]:
                    if s_["k"] == "assign" and s_["rv"]["k"] == "bin" and s_["rv"]["bop"].replace("WithOverflow", "") in ("Add", "Sub", "Mul", "Div") and s_["rv"].get("aty") in ("i16", "u16", "i32"):
                        bad.append("raw %s on %s" % (s_["rv"]["bop"], s_["rv"].get("aty")))
        if bad:
            run.fail(rule, "domain:%s" % path.split("::")[-1], "%s does arithmetic outside Fixed: %s" % (path, sorted(set(bad))), "%s:%s" % (b.file, b.line))
        elif n == 0:
            run.anchor_missing(rule, "arithmetic in %s" % path)
        else:
            run.ok(rule, "%s: %d operator call(s), all on Fixed" % (path.split("::")[-1], n))


def t13_zero(run, fx):
    rule = "T13-ZERO"
    run.rule(rule, "default_normalize maps the axis default to exactly 0 without dividing: every fixed-point division of the function lies "
                   "under the true branch of a strict comparison with the default (coord < default, coord > default) and the remaining case "
                   "assigns the constant 0 (OpenType: 'if userValue == defaultValue then 0'; with default == max the quotient would be 0/0)")
    b = fx.body("tables::variable_fonts::fvar::default_normalize")
    if b is None:
        return run.anchor_missing(rule, "tables::variable_fonts::fvar::default_normalize")
    prov = sym.Prov(b)
    conds = [(tb, call) for tb, fb, call, sw in guards.bool_call_conditions(b, prov)
             if tb is not None and (call[4] or call[1] or "").endswith(("PartialOrd::lt", "PartialOrd::gt"))
             and any(x[0] == "field" and x[2] == "default_value" for x in sym.walk(call))]
    # `match coord.cmp(&default) { Less => .., Greater => .., Equal => 0 }`: the arms for -1 and +1 are strict comparisons too
    for bi, blk in enumerate(b.blocks):
        t = blk["t"]
        if t["k"] != "switch" or not b.reachable(bi):
            continue
        d = sym.strip(prov.op(t["discr"]))
        if d[0] == "discr":
            d = sym.strip(d[1])
        if d[0] == "call" and (d[4] or d[1] or "").endswith("Ord::cmp") and any(x[0] == "field" and x[2] == "default_value" for x in sym.walk(d)):
            vals = [v for v, _ in t["arms"]]
            if 0 in vals:
                for v, tgt in t["arms"]:
                    if v != 0 and b.preds(tgt) == [bi]:
                        conds.append((tgt, d))
    divs = [(bi, t) for bi, t in b.calls() if (t["callee"].get("rpath") or t["callee"].get("path") or "").endswith("Div>::div")]
    if not divs:
        return run.anchor_missing(rule, "Fixed divisions in default_normalize")
    bad = [bi for bi, t in divs if not any(b.dominates(tb, bi) for tb, _ in conds)]
    zero = False
    for bi, t in b.calls():
        if (t["callee"].get("path") or "").endswith("From::from") and t["args"] and t["args"][0]["k"] == "const" and t["args"][0].get("val") == 0:
            zero = True
    if not bad and zero:
        run.ok(rule, "default_normalize: %d division(s), each under a strict comparison with the default; the equal case is the constant 0" % len(divs))
    else:
        run.fail(rule, "default-zero", "default_normalize: %s" % ("a division is reached without a strict comparison with the default (the default itself "
                 "is divided: 0/0 when default == max or min)" if bad else "no branch assigns the constant 0 for coord == default"),
                 b.loc(b.term(bad[0])) if bad else "%s:%s" % (b.file, b.line))


def t13_avar(run, fx):
    rule = "T13-AVAR"
    run.rule(rule, "avar: SegmentMap::normalize is driven by the segment map alone - the input is compared only with from_coordinate values read "
                   "from the table, never with a constant (the maps for -1, 0 and +1 are data: a font may map +1 to less than 1, so the end points "
                   "go through the map like every other value)")
    b = fx.body("tables::variable_fonts::avar::SegmentMap::<'_>::normalize")
    if b is None:
        return run.anchor_missing(rule, "avar::SegmentMap::normalize")
    prov = sym.Prov(b)
    bad = []
    n = 0
    for tb, fb_, call, sw in guards.bool_call_conditions(b, prov):
        nm = (call[4] or call[1] or "")
        if not nm.endswith(("PartialOrd::lt", "PartialOrd::le", "PartialOrd::gt", "PartialOrd::ge", "PartialEq::eq", "PartialEq::ne")):
            continue
        n += 1
        for a in call[2]:
            a = sym.strip(a)
            while a[0] in ("ref", "deref"):
                a = sym.strip(a[1])
            consts = [x for x in sym.walk(a) if x[0] == "c"]
            nonconst = [x for x in sym.walk(a) if x[0] in ("arg", "local", "field")]
            if consts and not nonconst:
                bad.append(sym.show(a)[:60])
    for tb, fb_, op, x, y, sw in guards.branch_conditions(b, prov):
        for z in (x, y):
            zs = sym.strip(z)
            if zs[0] == "c" and isinstance(zs[1], int) and not isinstance(zs[1], bool) and op in ("Lt", "Le", "Gt", "Ge"):
                bad.append("%s %s" % (op, zs[1]))
    # `match a.cmp(&b) { Less / Equal / Greater }` is a comparison too
    for bi, t in b.calls():
        if str(t["callee"].get("path") or "").endswith(("Ord::cmp", "PartialOrd::partial_cmp")) and len(t["args"]) == 2:
            n += 1
            for a in t["args"]:
                a = sym.strip(prov.op(a))
                while a[0] in ("ref", "deref"):
                    a = sym.strip(a[1])
                consts = [x for x in sym.walk(a) if x[0] == "c"]
                nonconst = [x for x in sym.walk(a) if x[0] in ("arg", "local", "field")]
                if consts and not nonconst:
                    bad.append(sym.show(a)[:60])
    if bad:
        run.fail(rule, "avar-constant-compare", "SegmentMap::normalize compares the coordinate with the constant(s) %s: values at or beyond them bypass the "
                 "segment map" % sorted(set(bad)), "%s:%s" % (b.file, b.line))
    elif n:
        run.ok(rule, "normalize: %d comparison(s), all against table data" % n)
    else:
        run.anchor_missing(rule, "comparisons in SegmentMap::normalize")


def t13_wide(run, fx):
    rule = "T13-WIDE"
    run.rule(rule, "16.16 products and quotients are formed in 64 bits: in <Fixed as Mul>::mul and <Fixed as Div>::div every multiplication, division "
                   "and shift works on i64 operands and the result is narrowed once at the end (the product of two 16.16 values needs 48 bits; a "
                   "32-bit multiply or pre-shift drops the bits that carry products of 0.5 and more)")
    for path in ("<tables::Fixed as std::ops::Mul>::mul", "<tables::Fixed as std::ops::Div>::div"):
        b = fx.body(path)
        if b is None:
            run.anchor_missing(rule, path)
            continue
        bad, n = [], 0
        for bi in range(len(b.blocks)):
            if not b.reachable(bi):
                continue
            for st in b.stmts(bi):
                rv = st.get("rv") or {}
                if st.get("k") == "assign" and rv.get("k") == "bin" and rv.get("bop", "").replace("WithOverflow", "").replace("Unchecked", "") in ("Mul", "Div", "Shl", "Shr", "Rem"):
                    n += 1
                    if rv.get("aty") != "i64":
                        bad.append("%s on %s at %s" % (rv["bop"], rv.get("aty"), b.loc(st)))
            t = b.term(bi)
            if t["k"] == "call":
                m = re.search(r"core::num::<impl (\w+)>::(wrapping|checked|overflowing|saturating|unchecked)_(mul|div|shl|shr)", t["callee"].get("path") or "")
                if m:
                    n += 1
                    if m.group(1) != "i64":
                        bad.append("%s_%s on %s at %s" % (m.group(2), m.group(3), m.group(1), b.loc(t)))
        if bad:
            run.fail(rule, "wide:%s" % path.split("::")[-1], "%s computes in fewer than 64 bits: %s" % (path, "; ".join(bad)), "%s:%s" % (b.file, b.line))
        elif n == 0:
            run.anchor_missing(rule, "arithmetic in %s" % path)
        else:
            run.ok(rule, "%s: %d operation(s), all on i64" % (path, n))


def t13_len2(run, fx):
    rule = "T13-LEN"
    b = fx.body("tables::variable_fonts::fvar::FvarTable::<'_>::owned_tuple")
    if b is None:
        return run.anchor_missing(rule, "FvarTable::owned_tuple")
    prov = sym.Prov(b)

    def is_len(t):
        t = sym.strip(t)
        if t[0] == "call" and (t[4] or t[1] or "").endswith("::len") and t[2]:
            r = sym.strip(t[2][0])
            while r[0] in ("ref", "deref"):
                r = sym.strip(r[1])
            return r[0] == "arg" and r[1] == 2
        return False

    def is_axis_count(t):
        t = sym.strip(t)
        while t[0] == "cast":
            t = sym.strip(t[4])
        return t[0] == "call" and (t[1] or "").endswith("::axis_count")

    def eq_len(t):
        t = sym.strip(t)
        return t[0] == "bin" and t[1] == "Eq" and ((is_len(t[2]) and is_axis_count(t[3])) or (is_len(t[3]) and is_axis_count(t[2])))
    ok = False
    ret = sym.strip(prov.local(0))
    if ret[0] == "call" and "bool" in (ret[1] or "") and (ret[1] or "").endswith(("::then", "::then_some")) and ret[2] and eq_len(ret[2][0]):
        ok = True
    else:
        somes = [bi for bi in range(len(b.blocks)) if b.reachable(bi) and any(
            st["k"] == "assign" and st["p"]["l"] == 0 and not st["p"]["p"] and st["rv"]["k"] == "agg" and st["rv"].get("vname") == "Some" for st in b.stmts(bi))]
        for tb, fb, op, x, y, sw in guards.branch_conditions(b, prov):
            if op in ("Eq", "Ne") and eq_len(("bin", "Eq", x, y)):
                blk = tb if op == "Eq" else fb
                if blk is not None and somes and all(b.dominates(blk, sb) for sb in somes):
                    ok = True
    if ok:
        run.ok(rule, "owned_tuple yields a tuple only when values.len() == axis_count()")
    else:
        run.fail(rule, "length:owned_tuple", "FvarTable::owned_tuple can yield a tuple without values.len() == axis_count(): a tuple of the wrong length is "
                 "accepted (truncated or padded) instead of rejected", "%s:%s" % (b.file, b.line))


# ---- T13-NORM: default normalisation as a whole ------------------------------------------------------------------------------------
def _norm_spec(coord, minv, default, maxv):
    """OpenType Font Variations overview, "Coordinate scales and normalization": clamp to [min, max]; below the default
    -(default - coord) / (default - min), above it (coord - default) / (max - default), 0 at the default; then clamp to [-1, 1]"""
    c = min(max(coord, minv), maxv)
    if c < default:
        v = -(default - c) / (default - minv)
    elif c > default:
        v = (c - default) / (maxv - default)
    else:
        v = Fraction(0)
    return min(max(v, Fraction(-1)), Fraction(1))


def t13_norm(run, fx):
    import fnread
    rule = "T13-NORM"
    run.rule(rule, "default normalisation (fvar): default_normalize, read as a decision list over (coord, minValue, defaultValue, maxValue) - the "
                   "comparisons of every path and its result formula, evaluated in exact rational arithmetic - equals the specification's function "
                   "for every assignment of a grid of seven values per parameter (-2 .. 2; all orderings and ties, values outside the axis range, "
                   "degenerate axes with min = default or default = max) on well-formed axes (min <= default <= max)")
    b = fx.body("tables::variable_fonts::fvar::default_normalize")
    if b is None:
        return run.anchor_missing(rule, "fvar::default_normalize")
    grid = [Fraction(k, 2) for k in (-4, -2, -1, 0, 1, 2, 4)]
    places = {"minv": "(*axis).min_value", "default": "(*axis).default_value", "maxv": "(*axis).max_value"}
    try:
        cnt, bad = fnread.compare(b, ["coord", "minv", "default", "maxv"], grid, _norm_spec, lambda coord, minv, default, maxv: minv <= default <= maxv, places=places)
    except fnread.Undecided as e:
        if e.helper:
            return run.notes.append("%s: default_normalize hands part of the decision to a helper (%s): not decided" % (rule, e))
        return run.fail(rule, "norm-shape", "default_normalize is no longer a decision list over the coordinate and the three axis values that this rule can read (%s): "
                        "the normalisation is not decided" % e, "%s:%s" % (b.file, b.line))
    if bad:
        a, got, want = bad[0]
        run.fail(rule, "norm", "default_normalize differs from the specification's default normalisation, e.g. for coord=%s on an axis min=%s default=%s max=%s it yields %s, "
                 "the specification %s" % (a["coord"], a["minv"], a["default"], a["maxv"], got, want), "%s:%s" % (b.file, b.line))
    else:
        run.ok(rule, "default_normalize equals the specification on %d assignments" % cnt)


# ---- T13-SEG: one step of the avar segment map ---------------------------------------------------------------------------------------
def t13_seg(run, fx):
    import fnread
    import loops
    import pathwalk as pw
    rule = "T13-SEG"
    run.rule(rule, "avar segment map (OpenType avar, 'find the first axisValueMap whose fromCoordinate is >= the value'): one iteration of the loop of "
                   "SegmentMap::normalize, read as a decision list over the value v, the previous record (sf, st) and the current record (ef, et) - "
                   "with exact rational arithmetic on a grid of all orderings - does what the specification says: ef == v yields et; ef > v yields "
                   "st + (v - sf) / (ef - sf) * (et - st); otherwise the scan goes on with the current record as the previous one; without a previous "
                   "record it always goes on; when the records run out the value is returned unchanged")
    b = fx.body("tables::variable_fonts::avar::SegmentMap::<'_>::normalize")
    if b is None:
        return run.anchor_missing(rule, "SegmentMap::normalize")
    nl = loops.natural_loops(b)
    if len(nl) != 1:
        return run.fail(rule, "seg-shape", "SegmentMap::normalize has %d loops; the rule reads one scan over the map records" % len(nl), "%s:%s" % (b.file, b.line))
    h = nl[0][0]
    w = pw.Walk(b, None, [h], start=h)
    if w.dropped or not w.paths:
        return run.fail(rule, "seg-shape", "the loop of SegmentMap::normalize cannot be read as a decision list (%s)" % ("; ".join(w.dropped) or "no path"), "%s:%s" % (b.file, b.line))
    vname = b.local_name(2) if b.arg_count >= 2 else None

    class Ev(fnread.GridEval):
        def atom(self, t):
            if t[0] == "discr":
                inner = t[1]
                while inner[0] in ("ref", "deref"):
                    inner = inner[1]
                if inner[0] == "call" and str(inner[1] or "").endswith(("::cmp", "::partial_cmp")):
                    return None         # an Ordering: evaluated structurally
                txt = sym.show(t[1], 0)
                if "next(" in txt:
                    return Fraction(self.a["has_e"])
                if t[1][0] == "init" or "init" in str(t[1])[:40]:
                    return Fraction(self.a["has_s"])
                return None
            if t[0] == "field" and t[2] in ("from_coordinate", "to_coordinate"):
                txt = sym.show(t, 0)
                key = ("e" if "next(" in txt else "s") + ("f" if t[2] == "from_coordinate" else "t")
                return self.a[key]
            return None

    def outcome(a):
        ev = Ev(dict(a))
        ev.a[vname] = a["v"]
        hits = []
        for conds, env, end, kind in w.paths:
            try:
                if all(ev.holds(c) for c in conds):
                    hits.append((env, kind))
            except fnread.DivZero:
                hits.append((None, "div0"))
        if len(hits) != 1:
            raise fnread.Undecided("%d paths apply" % len(hits))
        env, kind = hits[0]
        if kind == "div0":
            return ("div0",)
        if kind == "return":
            r = env.get("_0", ("init", "_0"))
            try:
                return ("done", ev.ev(r))
            except fnread.DivZero:
                return ("div0",)
        # back at the loop header: the value must be untouched and the previous record must now be the current one
        nv = env.get(vname)
        if nv is not None and ev.ev(nv) != a["v"]:
            return ("changed-and-continued",)
        ss = env.get("start_seg")
        txt = sym.show(ss, 0) if ss is not None else ""
        return ("continue", "e" if "next(" in txt else ("s" if ss is None else "?"))

    def spec(a):
        if not a["has_e"]:
            return ("done", a["v"])
        if not a["has_s"]:
            return ("continue", "e")
        if a["ef"] == a["v"]:
            return ("done", a["et"])
        if a["ef"] > a["v"]:
            return ("done", a["st"] + (a["v"] - a["sf"]) / (a["ef"] - a["sf"]) * (a["et"] - a["st"]))
        return ("continue", "e")
    import itertools
    grid = [Fraction(k, 2) for k in (-2, -1, 0, 1, 2)]
    n = 0
    bad = None
    try:
        for has_e, has_s in ((0, 0), (0, 1), (1, 0), (1, 1)):
            for v, sf, st, ef, et in itertools.product(grid, repeat=5):
                if sf >= ef:
                    continue        # fromCoordinate values increase along the map
                a = {"has_e": has_e, "has_s": has_s, "v": v, "sf": sf, "st": st, "ef": ef, "et": et}
                n += 1
                got, want = outcome(a), spec(a)
                if got != want and bad is None:
                    bad = (a, got, want)
    except fnread.Undecided as e:
        if e.helper:
            return run.notes.append("%s: SegmentMap::normalize hands part of the step to a helper (%s): not decided" % (rule, e))
        return run.fail(rule, "seg-shape", "one iteration of SegmentMap::normalize cannot be evaluated (%s): the segment map is not decided" % e, "%s:%s" % (b.file, b.line))
    if bad:
        a, got, want = bad
        run.fail(rule, "seg", "one step of SegmentMap::normalize differs from the specification: with value %s, previous record %s -> %s (%s) and current record %s -> %s (%s) it "
                 "yields %s, the specification %s" % (a["v"], a["sf"], a["st"], "present" if a["has_s"] else "absent", a["ef"], a["et"], "present" if a["has_e"] else "absent", got, want),
                 "%s:%s" % (b.file, b.line))
    else:
        run.ok(rule, "SegmentMap::normalize: one scan step equals the specification on %d assignments" % n)


def check(run, fx, tier, floors=True):
    import ignored
    ignored.run_for(run, fx, 'C13', floors)
    if floors or fx.body("tables::variable_fonts::fvar::FvarTable::<'_>::owned_tuple") is not None:
        t13_len2(run, fx)
    if floors or fx.body("<tables::variable_fonts::fvar::FvarTable<'b> as binary::read::ReadBinary>::read") is not None:
        # the axis records are addressed with the axisSize the table declares (shared with C12)
        import rules_C12
        rules_C12.r12_s(run, fx)
    if floors or fx.body("<tables::Fixed as std::ops::Mul>::mul") is not None:
        t13_wide(run, fx)
    if floors or fx.body("tables::variable_fonts::avar::SegmentMap::<'_>::normalize") is not None:
        t13_dom(run, fx)
        t13_avar(run, fx)
        if floors:
            t13_seg(run, fx)
    t13_len(run, fx)
    if floors or fx.body("tables::variable_fonts::fvar::default_normalize") is not None:
        t13_zero(run, fx)
        t13_norm(run, fx)
    t13_clamp(run, fx)
    t13_ord(run, fx)
    t13_priv(run, fx)
    n = arith.rule_div(run, fx, "T13-DIV", floors=False, select=lambda b: b.file == "src/tables.rs")
    if floors:
        run.floor("T13-DIV", "division sites in src/tables.rs (Fixed::div, F2Dot14::div)", n, 2)
