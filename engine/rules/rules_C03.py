"""C03 — results depend only on the arguments, not on earlier calls: the structural clauses.

C03-a/E  entry memo sites (HashMap::entry on a cache): every parameter the miss branch uses is part of the key
C03-a/K  no lossy narrowing inside a memo key
C03-a/R  ReadCache is keyed by scope base: receivers of read_cache* are offsets of a scope
C03-a/V  index memo (lookup_cache_gsub/gpos): slot read, slot write and the computation use the same index
C03-a/G  get/put memo (GlyphCache): the value's inputs are the get key, and put uses the same key
C03-a/L  LazyLoad: the slot is filled only after the loader succeeded; whatever a loader reads from the
         font object is never reassigned without resetting the slot
C03-b    determinism: no clock/env/thread/random callee; iteration over RandomState hash containers is audited
C03-c    no mutable or interior-mutable hand-written statics
"""
import re

import guards
import sym
from facts import callee_is, op_local

LEVEL = "other"
EXPLANATION = (
    "Decides history-independence as memo-key completeness over every cache of the crate, re-discovered on each run: for the HashMap::entry "
    "memos (gsub::get_supported_features, gsub::get_lookups_cache_index) the set of parameters used anywhere under the Vacant arm is a subset of "
    "the parameters the key is built from (plus the cache owner), and no key component is narrowed; the Coverage/ClassDef ReadCache is keyed by "
    "scope base and every receiver of read_cache* is an offset of a table scope; the lookup caches read, fill and compute with one and the same "
    "index; the dotted-circle GlyphCache is consulted and filled with a key made of all arguments the computation receives; LazyLoad slots are "
    "written only after the loader returned Ok, and every Font field a loader depends on is either never assigned after construction or assigned "
    "only by a function that also resets the slot. Determinism of the pure operations: no function of the crate calls into std::time, std::env, "
    "std::thread, std::process or a random source, every iteration over a RandomState-hashed container is an audited, order-insensitive site "
    "(FxHash containers are deterministic), and the crate has no mutable or interior-mutable static besides lazy_static's Once cells."
)
NOT_DECIDED = "equality of values across histories as such; determinism of third-party decompressors (brotli, flate2) is assumed."
ASSUMPTIONS = ["a memoised computation depends only on the values handed to it (its callees are deterministic, see C03-b)",
               "brotli-decompressor, flate2 and encoding_rs are deterministic"]

ENTRY_RX = re.compile(r"^std::collections::(HashMap|BTreeMap)::<[^>]*>::entry$")
# entry() sites on object state that is not a memo of a computation (one line of reason each)
NOT_A_MEMO = {
    "cff::cff2::StringTable::<'a>::get_or_insert": "SID allocator of the CFF writer: the stored value is the next free id by design, not a cached result",
}
OWNER_TYPES = ("&std::rc::Rc<layout::LayoutCacheData<", "&layout::LayoutCacheData<", "std::rc::Rc<layout::LayoutCacheData<",
               "&mut binary::read::ReadCache<", "&layout::LookupList<", "&mut font::GlyphCache", "&font::GlyphCache")
NARROW = {("usize", "u16"), ("usize", "u8"), ("usize", "u32"), ("u64", "u32"), ("u64", "u16"), ("u32", "u16"), ("u32", "u8"), ("u16", "u8"),
          ("u64", "u8"), ("u64", "usize"), ("isize", "i32"), ("i64", "i32"), ("i32", "i16"), ("u32", "i16"), ("usize", "i32")}


def root_params(fx, body, term, caps=None, depth=0):
    """names of the root function's parameters a term is built from. In a closure body, `_1.i`
    (a captured variable) is resolved through the closure literal of the parent."""
    out = set()
    if depth > 6:
        return out
    for x in sym.walk(term):
        if x[0] == "arg":
            if body.kind == "Closure" and x[1] == 1:
                continue
            out.add(x[2] or "_%d" % x[1])
        if body.kind == "Closure" and x[0] == "field" and isinstance(x[2], (int, str)) and str(x[2]).isdigit():
            base = x[1]
            while base[0] in ("deref", "ref"):
                base = base[1]
            if base[0] == "arg" and base[1] == 1:
                cap = capture_term(fx, body, int(x[2]))
                if cap is not None:
                    pb, pt = cap
                    out |= root_params(fx, pb, pt, depth=depth + 1)
    return out


def capture_term(fx, cbody, i):
    """(parent body, Prov term) of the i-th captured variable of closure `cbody`"""
    pdp = cbody.j.get("parent_dp")
    parents = [b for b in fx.bodies if b.dp == pdp] if pdp else []
    if not parents:
        # parent = longest proper prefix body
        cands = [b for b in fx.bodies if b is not cbody and cbody.dp.startswith(b.dp + "::")]
        cands.sort(key=lambda b: -len(b.dp))
        parents = cands[:1]
    for pb in parents:
        for bi, blk in enumerate(pb.blocks):
            for s in blk["s"]:
                if s["k"] == "assign" and s["rv"]["k"] == "agg" and s["rv"].get("agg") == "closure" and s["rv"].get("closure_dp") == cbody.dp:
                    if i < len(s["rv"]["fields"]):
                        return pb, sym.Prov(pb).op(s["rv"]["fields"][i])
    return None


def region_params(fx, body, blocks, skip_calls=()):
    """parameters of the root function used by anything in `blocks` (call arguments, assigned values, switch
    operands), following the closures that are created there"""
    out = set()
    prov = sym.Prov(body)
    for bi in sorted(blocks):
        blk = body.blocks[bi]
        for s in blk["s"]:
            if s["k"] == "assign":
                rv = s["rv"]
                if rv["k"] == "agg" and rv.get("agg") == "closure":
                    cb = fx.by_dp.get(rv.get("closure_dp"))
                    if cb is not None:
                        out |= region_params(fx, cb, set(range(len(cb.blocks))))
                    continue
                out |= root_params(fx, body, prov.rvalue(rv))
        t = blk["t"]
        if t["k"] == "call":
            if callee_is(t, *skip_calls):
                continue
            for a in t["args"]:
                out |= root_params(fx, body, prov.op(a))
        elif t["k"] == "switch":
            out |= root_params(fx, body, prov.op(t["discr"]))
    return out


def has_narrowing(term):
    for x in sym.walk(term):
        if x[0] == "cast" and x[1] == "IntToInt" and (x[2], x[3]) in NARROW:
            return "%s as %s" % (x[2], x[3])
    return None


def owner_params(body):
    out = set()
    for l in range(1, body.arg_count + 1):
        ty = body.local_ty(l)
        if ty.startswith(OWNER_TYPES):
            out.add(body.local_name(l) or "_%d" % l)
    return out


def c03_entry(run, fx, floors):
    rule = "C03-a/E"
    run.rule(rule, "entry memo: for every HashMap/BTreeMap::entry(key) on a cache, each parameter used under the Vacant arm (arguments of the "
                   "computation, stored values, branch conditions) is also an input of the key expression, or is the cache owner")
    run.rule("C03-a/K", "no component of a memo key passes through a lossy integer narrowing")
    n = 0
    for b in fx.bodies:
        if b.kind == "Closure":
            continue
        prov = None
        for bi, t in b.calls():
            if not ENTRY_RX.search(t["callee"].get("path") or ""):
                continue
            if prov is None:
                prov = sym.Prov(b)
            # the map must be persistent state (reached through a parameter); a map created in this function is not a cache
            recv = sym.strip(prov.op(t["args"][0]))
            r = recv
            for _ in range(12):
                if r[0] in ("ref", "deref", "field", "variant"):
                    r = sym.strip(r[1])
                elif r[0] == "call" and (r[4] or "").endswith(("DerefMut::deref_mut", "Deref::deref", "RefCell::<T>::borrow_mut", "RefCell::<T>::borrow")) and r[2]:
                    r = sym.strip(r[2][0])
                else:
                    break
            persistent = r[0] == "arg"
            recv_owner = {r[2]} if persistent and len(r) > 2 and r[2] else set()
            if not persistent:
                run.ok(rule, "%s: entry() on a function-local map (not a cache)" % b.path)
                continue
            if b.root in NOT_A_MEMO:
                run.ok(rule, "%s: %s" % (b.path, NOT_A_MEMO[b.root]))
                continue
            n += 1
            key_t = prov.op(t["args"][1])
            K = root_params(fx, b, key_t)
            nar = has_narrowing(key_t)
            if nar:
                run.fail("C03-a/K", "memo-key-narrowed:%s" % b.root, "the memo key of %s is narrowed (%s): distinct arguments can share a cache slot" % (b.path, nar), b.loc(t))
            else:
                run.ok("C03-a/K", "%s: key is not narrowed" % b.path)
            # Vacant arm: switch on the discriminant of the Entry value
            vac = None
            dl = t["dest"]["l"]
            holders = {dl}
            for bj, blk in enumerate(b.blocks):
                for s in blk["s"]:
                    if s["k"] == "assign" and not s["p"]["p"] and s["rv"]["k"] == "use" and op_local(s["rv"]["op"]) in holders:
                        holders.add(s["p"]["l"])
            for bj, t2, pty in __import__("shape").discr_switches(b):
                if "Entry<" in pty:
                    d = b.single_def(t2["discr"]["p"]["l"])
                    if d and d[3]["rv"]["p"]["l"] in holders:
                        # variant index of Vacant: std Entry { Occupied = 0, Vacant = 1 } for HashMap; BTreeMap { Vacant = 0, Occupied = 1 }
                        vidx = 0 if "btree" in pty else 1
                        for v, tgt in t2["arms"]:
                            if v == vidx:
                                vac = tgt
                        if vac is None:
                            vac = t2["otherwise"]
            if vac is None:
                run.fail(rule, "memo:%s:shape" % b.root, "cannot find the Vacant arm of the entry memo in %s (or_insert_with and friends are not recognised: fail closed)" % b.path, b.loc(t), ledger="memo")
                continue
            region = {x for x in b.reach_from(vac) if b.dominates(vac, x)}
            V = region_params(fx, b, region)
            extra = V - K - owner_params(b) - recv_owner
            if extra:
                run.fail(rule, "memo:%s:%s" % (b.root, ",".join(sorted(extra))),
                         "the value cached by %s depends on %s, which is not part of the key (key inputs: %s): a later call with other arguments gets a stale value" % (
                             b.path, sorted(extra), sorted(K)), b.loc(t), ledger="memo")
            else:
                run.ok(rule, "%s: miss branch uses %s, key built from %s" % (b.path, sorted(V - owner_params(b) - recv_owner), sorted(K)))
    if floors:
        run.floor(rule, "entry memo sites", n, 4)


def c03_readcache(run, fx, floors):
    rule = "C03-a/R"
    run.rule(rule, "ReadCache is keyed by ReadScope.base alone, so every receiver of read_cache/read_cache_state must be ReadScope::offset(..) of "
                   "a table scope (one buffer per cache): data is then a function of base")
    n = 0
    for b in fx.bodies:
        prov = None
        for bi, t in b.calls():
            if not callee_is(t, "ReadScope::<'a>::read_cache", "ReadScope::<'a>::read_cache_state"):
                continue
            if prov is None:
                prov = sym.Prov(b)
            n += 1
            r = sym.strip(prov.op(t["args"][0]))
            while r[0] in ("ref", "deref"):
                r = sym.strip(r[1])
            if r[0] == "call" and (r[1] or "").endswith(("ReadScope::<'a>::offset", "ReadScope::<'a>::offset_length")):
                run.ok(rule, "%s: receiver is %s(..)" % (b.path, r[1].split("::")[-1]))
            elif r[0] in ("arg", "field") or (r[0] == "local"):
                run.fail(rule, "readcache-recv:%s" % b.root, "receiver of read_cache in %s is %s, not an offset of a table scope" % (b.path, sym.show(r)[:60]), b.loc(t), ledger="memo")
            else:
                run.fail(rule, "readcache-recv:%s" % b.root, "receiver of read_cache in %s is %s, not an offset of a table scope" % (b.path, sym.show(r)[:60]), b.loc(t), ledger="memo")
    if floors:
        run.floor(rule, "read_cache call sites", n, 26)


def c03_index(run, fx):
    rule = "C03-a/V"
    run.rule(rule, "lookup_cache_gsub/gpos: the cache slot that is tested, the slot that is filled and the lookup that is read all use the "
                   "unmodified parameter lookup_index")
    for name in ("lookup_cache_gsub", "lookup_cache_gpos"):
        bs = [b for b in fx.bodies if b.path.endswith("::" + name) and b.kind != "Closure"]
        if len(bs) != 1:
            run.anchor_missing(rule, name)
            continue
        b = bs[0]
        prov = sym.Prov(b)
        idx_terms = []
        for bi, t in b.calls():
            if callee_is(t, "std::ops::Index::index", "std::ops::IndexMut::index_mut") and "LookupCacheItem" in " ".join(t["callee"].get("args") or []):
                idx_terms.append(sym.strip(prov.op(t["args"][1])))
            if callee_is(t, "::read_lookup_gsub", "::read_lookup_gpos"):
                idx_terms.append(sym.strip(prov.op(t["args"][2])))
        ok = len(idx_terms) >= 3 and all(x[0] == "arg" and x[2] == "lookup_index" for x in idx_terms)
        if ok:
            run.ok(rule, "%s: %d slot accesses / computation all at lookup_index" % (b.path, len(idx_terms)))
        else:
            run.fail(rule, "index-memo:%s" % name, "slot read/write/computation of %s do not all use the parameter lookup_index: %s" % (name, [sym.show(x)[:30] for x in idx_terms]), "%s:%s" % (b.file, b.line))


def c03_glyphcache(run, fx):
    rule = "C03-a/G"
    run.rule(rule, "Font::lookup_glyph_index: every parameter handed to the computation under the miss closure is part of the arguments of "
                   "GlyphCache::get, and GlyphCache::put receives the same key")
    b = fx.body("font::Font::<T>::lookup_glyph_index")
    if b is None:
        return run.anchor_missing(rule, "Font::lookup_glyph_index")
    prov = sym.Prov(b)
    gets = [(bi, t) for bi, t in b.calls() if callee_is(t, "font::GlyphCache::get")]
    if len(gets) != 1:
        return run.fail(rule, "glyphcache:get", "expected one GlyphCache::get in lookup_glyph_index, found %d" % len(gets), "%s:%s" % (b.file, b.line))
    K = set()
    for a in gets[0][1]["args"][1:]:
        K |= root_params(fx, b, prov.op(a))
    V = set()
    putK = None
    # the miss path: a closure handed to unwrap_or_else, or the rest of the function after an early return of the cached value
    for cb in [b] + list(fx.closures_of(b.dp)):
        cprov = sym.Prov(cb)
        for bi, t in cb.calls():
            if callee_is(t, "font::GlyphCache::put"):
                putK = set()
                for a in t["args"][1:3]:
                    putK |= root_params(fx, cb, cprov.op(a))
            elif callee_is(t, "font::GlyphCache::get"):
                continue
            elif cb is not b or (t["callee"].get("krate") == fx.raw["crate"] and not (t["callee"].get("path") or "").startswith(("std::", "core::"))):
                for a in t["args"]:
                    V |= root_params(fx, cb, cprov.op(a))
    V.discard("self")
    if putK is None:
        return run.fail(rule, "glyphcache:put", "the miss closure does not fill the cache with GlyphCache::put", "%s:%s" % (b.file, b.line))
    if V - K:
        run.fail(rule, "glyphcache:%s" % ",".join(sorted(V - K)), "the cached glyph depends on %s which is not part of the GlyphCache key (%s)" % (sorted(V - K), sorted(K)), "%s:%s" % (b.file, b.line))
    elif putK != K:
        run.fail(rule, "glyphcache:put-key", "GlyphCache::put is keyed by %s but GlyphCache::get by %s" % (sorted(putK), sorted(K)), "%s:%s" % (b.file, b.line))
    else:
        run.ok(rule, "lookup_glyph_index: computation inputs %s within key %s; put uses the same key" % (sorted(V), sorted(K)))
    # the cache itself compares the whole key
    g = fx.body("font::GlyphCache::get")
    if g is not None:
        gp = sym.Prov(g)
        eqs = [t for bi, t in g.calls() if callee_is(t, "std::cmp::PartialEq::eq")]
        keyed = False
        for t in eqs:
            names = set()
            for a in t["args"]:
                names |= {x[2] for x in sym.walk(gp.op(a)) if x[0] == "arg"}
            if "key" in names:
                keyed = True
        if keyed:
            run.ok(rule, "GlyphCache::get compares the stored key with the requested key")
        else:
            run.fail(rule, "glyphcache:get-ignores-key", "GlyphCache::get does not compare its key argument with the stored key", "%s:%s" % (g.file, g.line))


    # `ch` is an argument of get and put but is not stored with the entry: the cache is sound only because both sides are pinned to one
    # and the same character - get answers, and put stores, only under `ch == DOTTED_CIRCLE`
    p_ = fx.body("font::GlyphCache::put")
    if g is None or p_ is None:
        return run.anchor_missing(rule, "GlyphCache::get / GlyphCache::put")
    import guards

    def pinned(body, blocks):
        """constants c such that every block of `blocks` is dominated by the true side of `<param ch> == c`"""
        pv = sym.Prov(body)
        out = None
        for blk in blocks:
            ks = set()
            for tb, fb, op, x, y, sw in guards.branch_conditions(body, pv):
                for blk2, o in ((tb, op), (fb, guards.CMP_NEG.get(op))):
                    if blk2 is None or o != "Eq" or not body.dominates(blk2, blk):
                        continue
                    xs, ys = sym.strip(x), sym.strip(y)
                    for a, c in ((xs, ys), (ys, xs)):
                        if a[0] == "arg" and a[2] == "ch" and c[0] in ("c", "uneval"):
                            v = c[1]
                            if c[0] == "uneval":
                                v = (fx.const(c[1]) or {}).get("val", c[1])
                            if isinstance(v, str) and len(v) == 1:
                                v = ord(v)
                            if not isinstance(v, int) and len(c) > 3:
                                import re as _re
                                m_ = _re.search(r"u\{([0-9a-fA-F]+)\}", str(c[3]))
                                v = int(m_.group(1), 16) if m_ else v
                            ks.add(str(v))
            out = ks if out is None else (out & ks)
        return out or set()

    def stored_fields(body):
        """does the stored tuple include the parameter ch?"""
        pv = sym.Prov(body)
        for bi in range(len(body.blocks)):
            for st in body.stmts(bi):
                if st["k"] == "assign" and st["p"]["l"] == 1 and st["p"]["p"] and st["p"]["p"][0] == "*":
                    if any(x[0] == "arg" and x[2] == "ch" for x in sym.walk(pv.rvalue(st["rv"]))):
                        return True
        return False
    store_blocks = [bi for bi in range(len(p_.blocks)) if p_.reachable(bi) and any(
        st["k"] == "assign" and st["p"]["l"] == 1 and st["p"]["p"] and st["p"]["p"][0] == "*" for st in p_.stmts(bi))]
    hit_blocks = [bi for bi in range(len(g.blocks)) if g.reachable(bi) and any(
        st["k"] == "assign" and st["p"]["l"] == 0 and not st["p"]["p"] and st["rv"]["k"] == "agg" and st["rv"].get("vname") == "Some" for st in g.stmts(bi))]
    if not store_blocks or not hit_blocks:
        return run.anchor_missing(rule, "store in GlyphCache::put / Some(..) result in GlyphCache::get")
    if stored_fields(p_):
        run.ok(rule, "GlyphCache stores the character with the entry")
    else:
        kp, kg = pinned(p_, store_blocks), pinned(g, hit_blocks)
        if kp and kg and kp & kg:
            run.ok(rule, "GlyphCache::get and GlyphCache::put are both restricted to ch == %s, which is not part of the stored key" % sorted(kp & kg)[0][:40])
        else:
            side = "put stores" if not kp else ("get answers" if not kg else "get and put are pinned to different characters:")
            run.fail(rule, "glyphcache:ch", "the character is not part of the stored GlyphCache key and %s for any character: a lookup of one character can be "
                     "answered with the glyph cached for another" % side, "%s:%s" % ((p_ if not kp else g).file, (p_ if not kp else g).line))


def c03_lazy(run, fx, floors):
    rule = "C03-a/L"
    run.rule(rule, "LazyLoad::get_or_load assigns the slot only in a block dominated by the success of the loader; every Font field read on the way to "
                   "a loader closure is assigned only in constructors or in a function that also resets that LazyLoad slot")
    b = fx.body("font::LazyLoad::<T>::get_or_load")
    if b is None:
        run.anchor_missing(rule, "LazyLoad::get_or_load")
    else:
        # stores through self: (*self) = LazyLoad::Loaded(..)
        stores = []
        for bi, blk in enumerate(b.blocks):
            if not b.reachable(bi):
                continue
            for s in blk["s"]:
                if s["k"] == "assign" and s["p"]["l"] == 1 and s["p"]["p"] and s["p"]["p"][0] == "*":
                    stores.append((bi, s))
        loader = [(bi, t) for bi, t in b.calls() if callee_is(t, "std::ops::FnOnce::call_once")]
        ok = bool(stores) and len(loader) == 1
        if ok:
            lb, lt = loader[0]
            # success of `do_load()?`: the Continue arm of Try::branch on the loader's result
            succ = []
            for bj, t2 in b.calls():
                if callee_is(t2, "std::ops::Try::branch") and op_local(t2["args"][0]) == lt["dest"]["l"]:
                    succ = guards.success_blocks(b, t2["dest"]["l"])
            for (sb, s) in stores:
                if not any(b.dominates(x, sb) for x in succ):
                    ok = False
        if ok:
            run.ok(rule, "get_or_load: %d slot store(s), all after the loader returned Ok" % len(stores))
        else:
            run.fail(rule, "lazy:store-before-success", "LazyLoad::get_or_load can fill the slot without a successful load (a failure would be remembered as a value)", "%s:%s" % (b.file, b.line))
    # loader dependencies
    def owner_ty(root):
        return root.rsplit("::", 1)[0]
    users = {owner_ty(x.root) for x in fx.bodies if x.kind != "Closure" and any(callee_is(t, "font::LazyLoad::<T>::get_or_load") for _, t in x.calls())}
    font_fns = [x for x in fx.bodies if x.kind != "Closure" and owner_ty(x.root) in users]
    writes = {}   # (type, field) -> set(fn root) that assign it (excluding struct literals)
    wblocks = {}  # (type, field, fn root) -> [(body, block)]
    for fb in font_fns:
        for bi, blk in enumerate(fb.blocks):
            if not fb.reachable(bi):
                continue
            for s in blk["s"]:
                if s["k"] == "assign" and s["p"]["l"] == 1 and len(s["p"]["p"]) >= 2 and s["p"]["p"][0] == "*" and isinstance(s["p"]["p"][1], dict) and "f" in s["p"]["p"][1]:
                    writes.setdefault((owner_ty(fb.root), s["p"]["p"][1].get("n")), set()).add(fb.root)
                    wblocks.setdefault((owner_ty(fb.root), s["p"]["p"][1].get("n"), fb.root), []).append((fb, bi))

    def always_with(oty, dep, slot, fn_root):
        """every write of `dep` in fn_root is accompanied by a write of `slot` on every path: some slot write is in the same block,
        dominates the dep write, or lies on every path from the dep write to a return"""
        for (fb, wb) in wblocks.get((oty, dep, fn_root), []):
            ss = [sb for (sfb, sb) in wblocks.get((oty, slot, fn_root), []) if sfb is fb]
            ok = False
            for sb in ss:
                if sb == wb or fb.dominates(sb, wb):
                    ok = True
                    break
                # post-dominance: no return reachable from wb when sb is removed
                seen, todo, escapes = {wb}, [wb], False
                while todo and not escapes:
                    x = todo.pop()
                    if fb.term(x)["k"] == "return":
                        escapes = True
                        break
                    for y in fb.succs(x):
                        if y != sb and y not in seen:
                            seen.add(y)
                            todo.append(y)
                if not escapes:
                    ok = True
                    break
            if not ok:
                return False
        return True
    n = 0
    for fb in font_fns:
        prov = sym.Prov(fb)
        for bi, t in fb.calls():
            if not callee_is(t, "font::LazyLoad::<T>::get_or_load"):
                continue
            n += 1
            slot_t = sym.strip(prov.op(t["args"][0]))
            slot = None
            for x in sym.walk(slot_t):
                if x[0] == "field" and isinstance(x[2], str):
                    slot = x[2]
            # fields of self the closure's captures are derived from
            deps = set()
            cl = t["args"][1]
            ct = prov.op(cl)
            for x in sym.walk(ct):
                if x[0] == "field" and isinstance(x[2], str):
                    base = x[1]
                    while base[0] in ("deref", "ref"):
                        base = base[1]
                    if base[0] == "arg" and base[1] == 1:
                        deps.add(x[2])
            bad = []
            oty = owner_ty(fb.root)
            for d in sorted(deps):
                for w in sorted(writes.get((oty, d), ())):
                    if w not in writes.get((oty, slot), ()) or not always_with(oty, d, slot, w):
                        bad.append((d, w))
            if bad:
                run.fail(rule, "lazy:%s.%s:%s" % (oty.split("::")[-1].split("<")[0], slot, ",".join("%s<-%s" % (d, w.split("::")[-1]) for d, w in bad)),
                         "the loader of Font.%s reads %s, which %s reassigns without resetting the slot on every path" % (slot, sorted({d for d, _ in bad}), sorted({w for _, w in bad})), fb.loc(t), ledger="memo")
            else:
                run.ok(rule, "Font.%s: loader reads %s (never reassigned, or only together with the slot)" % (slot, sorted(deps)))
    if floors:
        run.floor(rule, "LazyLoad::get_or_load call sites", n, 9)


FORBIDDEN = re.compile(r"^(std::time::|std::env::|std::thread::|std::process::|std::net::|std::fs::|rand::|rand_core::|getrandom::|std::collections::hash::map::RandomState::new|std::hash::RandomState::new)")
HASH_ITER = ("::iter", "::keys", "::values", "::into_iter", "::drain", "::retain", "::iter_mut", "::values_mut", "::into_keys", "::into_values", "::extract_if")


def c03_b(run, fx, floors):
    rule = "C03-b"
    run.rule(rule, "no function of the crate calls std::time/env/thread/process/net/fs or a random source; every iteration over a HashMap/HashSet "
                   "with the default RandomState hasher is an audited order-insensitive site (ledger/hash_iter.jsonl); Fx-hashed containers are exempt")
    n_calls = 0
    for b in fx.bodies:
        for bi, t in b.calls():
            n_calls += 1
            p = t["callee"].get("path") or ""
            rp = t["callee"].get("rpath") or ""
            if (FORBIDDEN.search(p) or FORBIDDEN.search(rp)) and "RandomState::new" not in p:
                run.fail(rule, "nondet|%s|%s" % (b.root, p), "%s calls %s: the result can differ from run to run" % (b.path, p), b.loc(t), ledger="hash_iter")
            if p.endswith(HASH_ITER) and t["args"]:
                a0 = t["args"][0]
                ty = b.local_ty(a0["p"]["l"]) if a0["k"] in ("copy", "move") else ""
                gen = " ".join(t["callee"].get("args") or [])
                full = ty + " " + gen
                if ("HashMap<" in full or "HashSet<" in full or "hash_map::" in full or "hash_set::" in full or "hash::map::" in full) and "FxHasher" not in full:
                    if "RandomState" in full or not re.search(r"BuildHasherDefault", full):
                        run.fail(rule, "hash-iter|%s|%s" % (b.root, p.split("::")[-1]), "%s iterates a RandomState-hashed container (%s): order differs from run to run" % (b.path, p.split("::")[-1]), b.loc(t), ledger="hash_iter")
    run.ok(rule, "%d call sites scanned for clock/env/thread/random callees" % n_calls)
    # pointer-to-integer casts (address-dependent values)
    for b in fx.bodies:
        if b.exp:
            continue
        for bi, blk in enumerate(b.blocks):
            if not b.reachable(bi):
                continue
            for s in blk["s"]:
                if s["k"] == "assign" and s["rv"]["k"] == "cast" and s["rv"]["kind"] in ("PointerExposeProvenance", "PointerExposeAddress") and not s.get("exp"):
                    run.fail(rule, "ptr2int|%s" % b.root, "%s casts a pointer to an integer: the value depends on the allocation address" % b.path, b.loc(s), ledger="hash_iter")


def c03_c(run, fx):
    rule = "C03-c"
    run.rule(rule, "every static of the crate is immutable; interior mutability (non-Freeze) only in lazy_static's generated Once cells")
    n = 0
    for s in fx.tables["statics"]:
        n += 1
        if s.get("mutable"):
            run.fail(rule, "static-mut:%s" % s["path"], "`static mut %s`: hidden global state" % s["path"], "%s:%s" % (s["file"], s["line"]))
        elif not s.get("freeze") and not (s.get("exp") and s["ty"].startswith("lazy_static::lazy::Lazy<")):
            run.fail(rule, "static-cell:%s" % s["path"], "static %s has interior mutability (%s): hidden global state" % (s["path"], s["ty"]), "%s:%s" % (s["file"], s["line"]))
        else:
            run.ok(rule, "static %s: immutable%s" % (s["path"], "" if s.get("freeze") else " (lazy_static Once cell holding a constant)"))
    # thread_local!
    for b in fx.bodies:
        for bi, t in b.calls():
            if "thread::local" in (t["callee"].get("path") or "") or "LocalKey" in (t["callee"].get("path") or ""):
                run.fail(rule, "thread-local:%s" % b.root, "%s uses thread-local state" % b.path, b.loc(t))
    if n == 0:
        run.anchor_missing(rule, "statics table")


def c03_rebase(run, fx, floors=True):
    rule = "C03-a/B"
    run.rule(rule, "no ReadScope is re-based: ReadScope::new is never applied to (a sub-slice of) another scope's data(), neither directly nor as "
                   "the function handed to Option::map / and_then. Sub-scopes come from offset / offset_length, which keep the base that the "
                   "base-keyed caches (ReadCache, FeatureTableSubstitution::cache_key) use as the identity of a sub-table")
    n = 0
    for b in fx.bodies:
        if b.exp:
            continue
        prov = None
        for bi, t in b.calls():
            p = t["callee"].get("path") or ""
            hit = None
            if callee_is(t, "binary::read::ReadScope::<'a>::new"):
                prov = prov or sym.Prov(b)
                hit = prov.op(t["args"][0])
            elif p.endswith(("Option::<T>::map", "Option::<T>::and_then", "Result::<T, E>::map")) and len(t["args"]) == 2:
                prov = prov or sym.Prov(b)
                f = sym.strip(prov.op(t["args"][1]))
                if f[0] == "fn" and "ReadScope" in f[1] and f[1].endswith("::new"):
                    hit = prov.op(t["args"][0])
            if hit is None:
                continue
            n += 1
            if any(x[0] == "call" and (x[4] or x[1] or "").endswith(("ReadScope::<'a>::data", "ReadCtxt::<'a>::scope")) for x in sym.walk(hit)):
                run.fail(rule, "rebase:%s" % b.root, "%s builds a ReadScope from another scope's data(): the new scope's base is 0, so caches keyed by the "
                         "scope base confuse this sub-table with others (results depend on which was read first)" % b.path, b.loc(t))
    run.ok(rule, "%d ReadScope constructions examined" % n)
    # the sub-scope constructors themselves: a window that starts `off` bytes into self.data has base self.base + off
    lits = 0
    for b in fx.bodies:
        if b.exp or not b.root.startswith("binary::read::ReadScope"):
            continue
        prov = sym.Prov(b)
        for bi in range(len(b.blocks)):
            if not b.reachable(bi):
                continue
            for st in b.stmts(bi):
                rv = st.get("rv") or {}
                if not (st.get("k") == "assign" and rv.get("k") == "agg" and (rv.get("adt") or "").endswith("read::ReadScope")):
                    continue
                f = dict(zip(rv["fnames"], rv["fields"]))
                if "base" not in f or "data" not in f:
                    continue
                data, base = prov.op(f["data"]), sym.strip(prov.op(f["base"]))
                starts = []
                from_self = False
                # the data may be the merge of the arms of a match (`match self.data.get(offset..) { Some(t) => t, None => &[] }`)
                for _db, dv in sym.alternatives(b, prov, data):
                    for x in sym.walk(dv):
                        if x[0] == "agg" and str(x[1]).endswith(("ops::RangeFrom", "ops::Range")) and x[3]:
                            starts.append(sym.strip(x[3][0]))
                    if any(y[0] == "field" and y[2] == "data" and any(z[0] == "arg" and z[2] == "self" for z in sym.walk(y)) for y in sym.walk(dv)):
                        from_self = True
                moving = [x for x in starts if not (x[0] == "c" and x[1] == 0)]
                if not from_self or not moving:
                    continue
                lits += 1
                off = sym.norm(moving[0])
                ok = base[0] == "bin" and base[1] in ("Add", "AddWithOverflow") and any(
                    sym.norm(sym.strip(base[i])) == off and any(z[0] == "field" and z[2] == "base" for z in sym.walk(base[5 - i])) for i in (2, 3))
                if ok:
                    run.ok(rule, "%s: base = self.base + offset" % b.path)
                else:
                    run.fail(rule, "base:%s" % b.root, "%s returns a window that starts %s bytes into the data but carries the base %s: distinct windows share one "
                             "cache identity (ReadCache, cache_key), so what a read returns depends on what was read before" % (b.path, sym.show(moving[0])[:30], sym.show(base)[:40]), b.loc(st))
    if floors and lits < 2:
        run.anchor_missing(rule, "ReadScope::offset and ReadScope::offset_length literals (found %d)" % lits)


def check(run, fx, tier, floors=True):
    c03_entry(run, fx, floors)
    c03_readcache(run, fx, floors)
    c03_index(run, fx)
    c03_glyphcache(run, fx)
    c03_lazy(run, fx, floors)
    c03_b(run, fx, floors)
    c03_c(run, fx)
    c03_rebase(run, fx, floors)
    if floors or fx.body("layout::new_layout_cache") is not None:
        # the lookup caches are index memos: the remembered index must be the position of the list it stands for
        import rules_C02
        rules_C02.c02_s(run, fx)
