"""C07 — subsetting preserves outlines and metrics: the id-space discipline.

Old (source) and new (subset) glyph ids are both u16/usize. A frozen table of sinks says which space
each index position requires; the provenance of the operand decides which space it is in:

  OLD  result of SubsetGlyphs::old_id, element of the caller's glyph_ids (slice iteration / indexing),
       field `old_id`/`glyph_index` read out of the source glyph
  NEW  result of SubsetGlyphs::new_id, loop counter over 0..subset.len(), Iterator::position / enumerate
       index over the growing id list, len() of the id list

T07-ID   every source-table access is indexed by an OLD id, every id stored into the output is NEW
T07-MAP  the two directions of each SubsetGlyphs implementation index the right tables
"""
import re

import sym
from facts import callee_is

LEVEL = "other"
EXPLANATION = (
    "Decides the id-space discipline of the subsetter, the characteristic source of 'right glyph, wrong metrics/outline' defects that the type "
    "checker cannot see because both id spaces are u16. For each access to a *source* table in the subsetting code — hmtx.h_metrics.read_item, "
    "hmtx.left_side_bearings.read_item, glyf records.get, CFF char_strings_index.read_object, charset.id_for_glyph, fd_select.font_dict_index, "
    "char_string_used_subrs — the index operand must, by provenance, be an old id (SubsetGlyphs::old_id result or an element of the caller's "
    "glyph list); every id written into the output (composite component ids, the argument of old_id, values of old_to_new maps) must be a new id "
    "(new_id result, position/enumerate index, length of the growing list, loop counter over the subset). An operand of the wrong or of unknown "
    "space is a violation. The SubsetGlyphs implementations must answer old_id from the new-to-old list and new_id from the old-to-new map."
)
NOT_DECIDED = "equality of outlines, advance widths and side bearings of retained glyphs; boundary arithmetic on the number of long metrics; CFF subroutine renumbering."
ASSUMPTIONS = ["Iterator::position / enumerate yield positions in the list being walked (std contract)"]

# (function regex, callee suffix, argument index of the id, required space, what is indexed)
SINKS = [
    (r"^subset::create_hmtx_table$", "ReadArrayCow::<'a, T>::read_item", 1, "OLD", "source hmtx records"),
    (r"^subset::create_hmtx_table$", "SubsetGlyphs::old_id", 1, "NEW", "argument of old_id"),
    (r"^tables::glyf::subset::<impl tables::glyf::GlyfTable<'a>>::subset$", "core::slice::<impl [T]>::get", 1, "OLD", "source glyf records", "records"),
    (r"^cff::subset::<impl cff::CFF<'a>>::subset$", "::read_object", 1, "OLD", "source CharStrings INDEX"),
    (r"^cff::subset::<impl cff::CFF<'a>>::subset$", "Charset::<'a>::id_for_glyph", 1, "OLD", "source charset"),
    (r"^cff::subset::<impl cff::CFF<'a>>::subset$", "FDSelect::<'a>::font_dict_index", 1, "OLD", "source FDSelect"),
    (r"^cff::subset::<impl cff::CFF<'a>>::subset$", "charstring::char_string_used_subrs", 3, "OLD", "source charstring"),
    (r"^cff::cff2::CFF2::<'a>::subset_to_cff$", "charstring::char_string_used_subrs", 3, "OLD", "source CFF2 charstring (subr scan)"),
    (r"^cff::cff2::CFF2::<'a>::subset_to_cff$", "charstring::convert_cff2_to_cff", 3, "OLD", "source CFF2 charstring (conversion)"),
]
OLD_CALLS = ("SubsetGlyphs::old_id",)
NEW_CALLS = ("SubsetGlyphs::new_id", "Iterator::position", "::len")


def space_of(b, term, depth=0):
    """'OLD' | 'NEW' | 'MIXED' | None from the provenance of an index operand"""
    old = new = False
    t0 = sym.strip(term)
    while t0[0] == "cast":
        t0 = sym.strip(t0[4])
    if t0[0] == "call" and (t0[4] or t0[1] or "").endswith("::len"):
        # the number of glyphs emitted so far is the next NEW id (whatever the vector holds)
        return "NEW"
    for x in sym.walk(term):
        if x[0] == "call":
            nm = (x[4] or x[1] or "")
            if nm.endswith(OLD_CALLS):
                old = True
            elif nm.endswith(("SubsetGlyphs::new_id", "Iterator::position")):
                new = True
            elif nm.endswith("Iterator::next"):
                # what is being iterated?
                src = " ".join((y[4] or y[1] or "") for y in sym.walk(x) if y[0] == "call")
                args = [y for y in sym.walk(x) if y[0] == "arg"]
                if "Enumerate" in (x[1] or "") or "enumerate" in src:
                    new = True
                elif "ops::Range" in (x[1] or "") or "range::" in (x[1] or ""):
                    new = True
                elif any(a[2] == "glyph_ids" for a in args):
                    old = True
        elif x[0] == "arg" and x[2] == "glyph_ids":
            # indexing / iterating the caller's list yields old ids
            old = True
        elif x[0] == "field" and x[2] in ("old_id",):
            old = True
        elif x[0] == "local" and len(x) > 2 and x[2] in ("glyph_id",) and depth == 0:
            # `for &glyph_id in glyph_ids` desugars into a multi-definition local: resolve through its definitions
            for d in b.defs().get(x[1], []):
                import reach
                dt = reach.def_term(b, sym.Prov(b), d)
                s2 = space_of(b, dt, depth + 1)
                if s2 == "OLD":
                    old = True
                elif s2 == "NEW":
                    new = True
    if old and new:
        # old_id(new) is OLD: the outer call decides
        t = sym.strip(term)
        while t[0] in ("cast", "ref", "deref") or (t[0] == "call" and (t[4] or "").endswith(("From::from", "Into::into", "Try::branch"))):
            t = sym.strip(t[4] if t[0] == "cast" else (t[2][0] if t[0] == "call" else t[1]))
        for x in sym.walk(t):
            if x[0] == "call":
                nm = x[4] or x[1] or ""
                if nm.endswith(OLD_CALLS):
                    return "OLD"
                if nm.endswith(("SubsetGlyphs::new_id", "Iterator::position")):
                    return "NEW"
        return "MIXED"
    if old:
        return "OLD"
    if new:
        return "NEW"
    return None


def boundary_index(term):
    """the operand is computed from the parameter num_h_metrics alone (hmtx: the last long metric applies to all later glyphs)"""
    args = {x[2] for x in sym.walk(term) if x[0] == "arg"}
    calls = [x for x in sym.walk(term) if x[0] == "call" and not (x[4] or x[1] or "").endswith(
        ("From::from", "Into::into", "::checked_sub", "::saturating_sub", "::ok_or", "Try::branch", "::unwrap_or"))]
    return args == {"num_h_metrics"} and not calls


def t07_id(run, fx, floors):
    rule = "T07-ID"
    run.rule(rule, "each listed access to a source table is indexed by an operand whose provenance is an old id; each id handed to old_id or stored "
                   "into the output is a new id (table of sinks in rules_C07.SINKS)")
    n = 0
    for sink in SINKS:
        rx, callee, idx, want, what = sink[:5]
        recv_field = sink[5] if len(sink) > 5 else None       # the call is a sink only when its receiver is this field of the source table
        bs = [b for b in fx.bodies if re.search(rx, b.path) and b.kind != "Closure"]
        if len(bs) != 1:
            run.anchor_missing(rule, rx)
            continue
        b = bs[0]
        hits = 0
        for fb in fx.family(b):
            prov = sym.Prov(fb)
            for bi, t in fb.calls():
                if not callee_is(t, callee) or idx >= len(t["args"]):
                    continue
                if recv_field is not None and not any(x[0] == "field" and x[2] == recv_field for x in sym.walk(prov.op(t["args"][0]))):
                    continue        # `get` on another slice (the caller's id list, say) is not an access to the source table
                hits += 1
                n += 1
                term = prov.op(t["args"][idx])
                got = space_of(fb, term)
                key = "idspace:%s:%s" % (b.root, callee.split("::")[-1])
                if got is None and want == "OLD" and boundary_index(term):
                    run.ok(rule, "%s: %s read at the boundary position num_h_metrics - 1 (the last long metric), not by id" % (b.root.split("::")[-1], what))
                elif got == want:
                    run.ok(rule, "%s: %s indexed by %s id" % (b.root.split("::")[-1], what, got))
                else:
                    run.fail(rule, key, "%s in %s is indexed by %s id (%s), needs an %s id" % (what, fb.path, got or "an operand of unknown space", sym.show(sym.strip(term))[:70], want), fb.loc(t))
        if hits == 0:
            run.anchor_missing(rule, "%s in %s" % (callee, rx))
    # composite component ids written back must be NEW
    b = fx.body("tables::glyf::subset::add_glyph")
    if b is None:
        run.anchor_missing(rule, "tables::glyf::subset::add_glyph")
    else:
        prov = sym.Prov(b)
        stores = 0
        for bi, blk in enumerate(b.blocks):
            if not b.reachable(bi):
                continue
            for s in blk["s"]:
                if s["k"] == "assign" and s["p"]["p"] and any(isinstance(e, dict) and e.get("n") == "glyph_index" for e in s["p"]["p"]):
                    stores += 1
                    n += 1
                    term = prov.rvalue(s["rv"])
                    got = space_of(b, term)
                    if got is None:
                        # a position in the list of new ids: found by position(), or the list's length read before the child is appended;
                        # written as position().unwrap_or_else(|| ..) or as a match whose arms are merged into one variable
                        inner = sym.strip(term)
                        while inner[0] == "cast":
                            inner = sym.strip(inner[4])
                        calls = [(x[4] or x[1] or "") for x in sym.walk(inner) if x[0] == "call"]
                        if any(c.endswith("Option::<T>::unwrap_or_else") for c in calls):
                            got = "NEW" if any(c.endswith("Iterator::position") for c in calls) else None
                        else:
                            alts = sym.alternatives(b, prov, inner)
                            def is_pos(v):
                                v = sym.strip(v)
                                if v[0] == "field" and v[1][0] == "variant" and v[1][2] == "Some":
                                    c0 = sym.strip(v[1][1])
                                    return c0[0] == "call" and (c0[4] or c0[1] or "").endswith("Iterator::position")
                                if v[0] == "call" and (v[4] or v[1] or "").endswith("::len"):
                                    return any(x[0] == "arg" and x[2] == "glyph_ids" for x in sym.walk(v))
                                return False
                            if len(alts) >= 2 and all(is_pos(v) for _, v in alts):
                                got = "NEW"
                    if got == "NEW":
                        run.ok(rule, "add_glyph: component glyph_index is rewritten to its position in the subset list (new id)")
                    else:
                        run.fail(rule, "idspace:add_glyph:glyph_index", "the component id stored back into the composite is %s, needs a new id" % (got or "of unknown space"), b.loc(s))
        if stores == 0:
            run.anchor_missing(rule, "store to glyph_index in add_glyph")
    if floors:
        run.floor(rule, "id-space sinks", n, 9)


def t07_map(run, fx):
    rule = "T07-MAP"
    run.rule(rule, "every impl of SubsetGlyphs: old_id reads the new-to-old list (glyphs[new].old_id / new_to_old_id[new]); new_id looks the old id up "
                   "in old_to_new_id")
    impls = {}
    for b in fx.bodies:
        m = re.match(r"^<(.+) as subset::SubsetGlyphs>::(old_id|new_id)$", b.path)
        if m:
            impls.setdefault(m.group(1), {})[m.group(2)] = b
    if not impls:
        return run.anchor_missing(rule, "impls of SubsetGlyphs")
    for ty, d in sorted(impls.items()):
        for k, b in sorted(d.items()):
            prov = sym.Prov(b)
            ret = prov.local(0)
            fields = {x[2] for x in sym.walk(ret) if x[0] == "field" and isinstance(x[2], str)}
            # through Index::index calls the field lives in the call's argument
            for bi, t in b.calls():
                for a in t["args"]:
                    fields |= {x[2] for x in sym.walk(prov.op(a)) if x[0] == "field" and isinstance(x[2], str)}
            want = {"old_id": {"new_to_old_id", "glyphs"}, "new_id": {"old_to_new_id"}}[k]
            wrong = {"old_id": {"old_to_new_id"}, "new_id": {"new_to_old_id"}}[k]
            if fields & want and not fields & wrong:
                run.ok(rule, "%s::%s reads %s" % (ty.split("::")[-1], k, sorted(fields & want)))
            else:
                run.fail(rule, "idmap:%s:%s" % (ty, k), "%s::%s reads %s; expected %s" % (ty, k, sorted(fields), sorted(want)), "%s:%s" % (b.file, b.line))


def t07_comp(run, fx):
    rule = "T07-COMP"
    run.rule(rule, "GlyfRecord::is_composite classifies by the sign of numberOfContours (negative = composite, per the glyf specification), the same "
                   "test the glyph parser dispatches on: a composite can never be copied as if it were a simple glyph")
    b = fx.body("tables::glyf::GlyfRecord::<'a>::is_composite")
    if b is None:
        return run.anchor_missing(rule, "GlyfRecord::is_composite")
    ret = sym.strip(sym.Prov(b).local(0))
    ok = ret[0] == "bin" and ret[1] == "Lt" and sym.strip(ret[3])[0] == "c" and sym.strip(ret[3])[1] == 0 and \
        any(x[0] == "call" and (x[1] or "").endswith("number_of_contours") for x in sym.walk(ret[2]))
    if ok:
        run.ok(rule, "is_composite = number_of_contours() < 0")
    else:
        run.fail(rule, "composite-predicate", "is_composite is not `number_of_contours() < 0` (%s): composites with another negative count are treated as simple glyphs" % sym.show(ret)[:70], "%s:%s" % (b.file, b.line))
    g = fx.body("<tables::glyf::Glyph<'b> as binary::read::ReadBinary>::read")
    if g is None:
        return run.anchor_missing(rule, "Glyph::read")
    prov = sym.Prov(g)
    found = False
    for tb, fb, op, x, y, sw in __import__("guards").branch_conditions(g, prov):
        x1, y1 = sym.strip(x), sym.strip(y)
        if y1[0] == "c" and y1[1] == 0 and op in ("Ge", "Lt") and any(z[0] == "call" and (z[1] or "").endswith("read_i16be") for z in sym.walk(x1)):
            found = True
    if not found:
        # the same dispatch written as `match u16::try_from(number_of_contours)`: the conversion succeeds exactly for counts >= 0. The simple
        # glyph is read only on its success side and the composite glyph is not reachable from there.
        import guards
        simple = [bi for bi, t in g.calls() if "SimpleGlyph" in " ".join(t["callee"].get("args") or []) + (t["callee"].get("rpath") or "")]
        comp = [bi for bi, t in g.calls() if "CompositeGlyph" in " ".join(t["callee"].get("args") or []) + (t["callee"].get("rpath") or "")]
        for bi, t in g.calls():
            rp = t["callee"].get("rpath") or t["callee"].get("path") or ""
            if re.search(r"TryFrom<i16> for u16>::try_from$", rp) and not t["dest"]["p"] and \
                    any(z[0] == "call" and (z[1] or "").endswith("read_i16be") for z in sym.walk(prov.op(t["args"][0]))):
                sbs = guards.success_blocks(g, t["dest"]["l"])
                after = set()
                for sb in sbs:
                    after |= g.reach_from(sb)
                if simple and comp and sbs and all(any(g.dominates(sb, x) for sb in sbs) for x in simple) and not any(x in after for x in comp):
                    found = True
    if found:
        run.ok(rule, "Glyph::read dispatches on numberOfContours >= 0 / < 0")
    else:
        run.fail(rule, "composite-dispatch", "Glyph::read does not dispatch on the sign of numberOfContours", "%s:%s" % (g.file, g.line))


def t07_subr(run, fx):
    rule = "T07-SUBR"
    run.rule(rule, "rebuild_local_subr_indices looks every glyph of its used-subrs map up in cid.fd_select: at each call site the map's keys and the "
                   "FDSelect must be in the same id space (a source FDSelect is indexed by old ids, an FDSelect assembled for the output by new ids)")
    sites = []
    for b in fx.bodies:
        for bi, t in b.calls():
            if callee_is(t, "cff::subset::rebuild_local_subr_indices"):
                sites.append((b, bi, t))
    if not sites:
        return run.anchor_missing(rule, "calls to rebuild_local_subr_indices")
    for b, bi, t in sites:
        prov = sym.Prov(b)
        # FDSelect space: a CIDData literal built in this function holds the output FDSelect
        cid_t = sym.strip(prov.op(t["args"][0]))
        built_here = any(x[0] == "agg" and x[1] == "cff::CIDData" for x in sym.walk(cid_t))
        if not built_here:
            # the argument may be a reference to a multi-definition-free local assigned from the literal
            for x in sym.walk(cid_t):
                if x[0] == "local":
                    for d in b.defs().get(x[1], []):
                        if d[2] == "assign" and d[3]["rv"]["k"] == "agg" and d[3]["rv"].get("adt") == "cff::CIDData":
                            built_here = True
        fd_space = "NEW" if built_here else "OLD"
        # key space of the map: insert(map, key, _) in this function on the same local
        m = t["args"][1]
        ml = m["p"]["l"] if m["k"] in ("copy", "move") else None
        holders = {ml}
        changed = True
        while changed:
            changed = False
            for bj, blk in enumerate(b.blocks):
                for s_ in blk["s"]:
                    if s_["k"] == "assign" and not s_["p"]["p"] and s_["rv"]["k"] in ("use", "ref"):
                        src = s_["rv"].get("op", {}).get("p") if s_["rv"]["k"] == "use" else s_["rv"]["p"]
                        if src and not src["p"]:
                            if s_["p"]["l"] in holders and src["l"] not in holders:
                                holders.add(src["l"]); changed = True
                            if src["l"] in holders and s_["p"]["l"] not in holders:
                                holders.add(s_["p"]["l"]); changed = True
        spaces = set()
        for fb in fx.family(b):
            fprov = sym.Prov(fb)
            for bj, t2 in fb.calls():
                if callee_is(t2, "HashMap::<K, V, S>::insert", "::insert") and len(t2["args"]) == 3 and "HashMap" in (t2["callee"].get("path") or ""):
                    a0 = t2["args"][0]
                    if fb is b and a0["k"] in ("copy", "move") and a0["p"]["l"] in holders:
                        spaces.add(space_of(fb, fprov.op(t2["args"][1])))
        key_space = spaces.pop() if len(spaces) == 1 else ("MIXED" if spaces else None)
        where = "%s" % b.root.split("::")[-1]
        if key_space == fd_space:
            run.ok(rule, "%s: used-subrs map keyed by %s ids, FDSelect indexed by %s ids" % (where, key_space, fd_space))
        else:
            run.fail(rule, "subr-idspace:%s" % b.root, "%s: the used-subrs map is keyed by %s glyph ids but the FDSelect it is looked up in is indexed by %s ids: local subroutines are attributed to the wrong Font DICT (or BadIndex)" % (
                b.path, key_space, fd_space), b.loc(t), ledger="idspace")


def t07_bias(run, fx):
    rule = "T07-BIAS"
    run.rule(rule, "subroutine INDEXes are rebuilt with exactly as many entries as the source INDEX: the callsubr/callgsubr bias is a step "
                   "function of the entry count and the retained charstrings are not rewritten, so the element count of every "
                   "vec![Vec::new(); n] that becomes a rebuilt subr INDEX is len() of the source INDEX, unmodified")
    n = 0
    for b in fx.bodies:
        if b.root not in ("cff::subset::rebuild_global_subr_index", "cff::subset::rebuild_local_subr_indices"):
            continue
        prov = sym.Prov(b)
        for bi, t in b.calls():
            p = t["callee"].get("path") or ""
            if not p.endswith("vec::from_elem"):
                continue
            ga = t["callee"].get("args") or []
            if not ga or "Vec<u8>" not in ga[0]:
                continue        # vec![None; ..] of the per-font slots is not an INDEX
            n += 1
            cnt = sym.strip(prov.op(t["args"][1]))
            where = b.root.split("::")[-1]
            if cnt[0] == "call" and (cnt[4] or cnt[1] or "").endswith("::len") and not any(
                    x[0] == "call" and (x[4] or x[1] or "").endswith(("::min", "::max", "::saturating_sub", "::checked_sub")) for x in sym.walk(cnt)) and not any(
                    x[0] == "bin" for x in sym.walk(cnt)):
                run.ok(rule, "%s: destination INDEX has len() of the source INDEX entries" % where)
            else:
                run.fail(rule, "bias:%s" % where, "%s sizes the rebuilt subr INDEX with %s instead of the source INDEX's len(): the subroutine bias of the "
                         "subset font differs from the source and retained charstrings call the wrong subroutines" % (where, sym.show(cnt)[:80]), b.loc(t))
    if n < 2:
        run.anchor_missing(rule, "vec![Vec::new(); n] in rebuild_global_subr_index / rebuild_local_subr_indices (found %d)" % n)


def t07_sent(run, fx):
    rule = "T07-SENT"
    run.rule(rule, "an FDSelect format 3 built for the output ends with the sentinel GID = number of glyphs (CFF specification, table 29: the "
                   "sentinel delimits the last range, so it is one past the last glyph id): the `sentinel` field of every FDSelect::Format3 "
                   "literal is the CharStrings INDEX len() (through checked conversions), with no arithmetic on it")
    n = 0
    for b in fx.bodies:
        if b.exp:
            continue
        prov = None
        for bi, blk in enumerate(b.blocks):
            if not b.reachable(bi):
                continue
            for st in blk["s"]:
                if st["k"] == "assign" and st["rv"]["k"] == "agg" and st["rv"].get("adt") == "cff::FDSelect" and st["rv"].get("vname") == "Format3":
                    f = dict(zip(st["rv"]["fnames"], st["rv"]["fields"]))
                    if "sentinel" not in f:
                        continue
                    if prov is None:
                        prov = sym.Prov(b)
                    t = sym.strip(prov.op(f["sentinel"]))
                    # readers copy the value from the font: only literals whose sentinel is computed are of interest
                    if any(x[0] == "call" and (x[4] or x[1] or "").endswith(("read_u16be", "ReadCtxt::<'a>::read", "ReadBinary::read")) for x in sym.walk(t)):
                        continue
                    n += 1
                    has_len = any(x[0] == "call" and (x[4] or x[1] or "").endswith("::len") for x in sym.walk(t))
                    arith_ = [x for x in sym.walk(t) if x[0] == "bin" or (x[0] == "call" and (x[4] or x[1] or "").endswith(
                        ("::saturating_sub", "::checked_sub", "::wrapping_sub", "::saturating_add", "::checked_add")))]
                    if has_len and not arith_:
                        run.ok(rule, "%s: sentinel = len() of the CharStrings INDEX" % b.path)
                    else:
                        run.fail(rule, "sentinel:%s" % b.root, "%s builds an FDSelect format 3 whose sentinel is %s, not the glyph count: the last glyph "
                                 "falls outside every range and has no Font DICT" % (b.path, sym.show(t)[:80]), b.loc(st))
    if n == 0:
        run.anchor_missing(rule, "a computed FDSelect::Format3 literal")


def t07_hmtx(run, fx):
    rule = "T07-HMTX"
    run.rule(rule, "hmtx: glyph g has its own long metric iff g < numberOfHMetrics; every other glyph takes the last advance and "
                   "leftSideBearings[g - numberOfHMetrics] (OpenType hmtx). Each read of left_side_bearings is indexed by g - n and guarded by "
                   "exactly g >= n (the false side of g < n, or the true side of g >= n) - not g > n, which leaves g == n with the wrong bearing")
    import guards
    n = 0
    for b in fx.bodies:
        if b.exp:
            continue
        prov = None
        for bi, t in b.calls():
            p = t["callee"].get("path") or ""
            if not p.endswith(("::read_item", "::get_item")):
                continue
            prov = prov or sym.Prov(b)
            recv = prov.op(t["args"][0])
            if not any(x[0] == "field" and x[2] == "left_side_bearings" for x in sym.walk(recv)):
                continue
            idx = sym.strip(prov.op(t["args"][1]))
            if not (idx[0] == "bin" and idx[1] == "Sub"):
                continue      # e.g. an index checked by check_index: only the g - n form is of interest
            n += 1
            g, k = sym.norm(sym.strip(idx[2])), sym.norm(sym.strip(idx[3]))
            ok = False
            strict = False
            for tb, fb_, op, x, y, sw in guards.branch_conditions(b, prov):
                xs, ys = sym.norm(sym.strip(x)), sym.norm(sym.strip(y))
                for blk, o in ((tb, op), (fb_, guards.CMP_NEG[op])):
                    if blk is None or not b.dominates(blk, bi):
                        continue
                    rel = None
                    if xs == g and ys == k:
                        rel = o
                    elif xs == k and ys == g:
                        rel = guards.CMP_FLIP[o]
                    if rel == "Ge":
                        ok = True
                    elif rel == "Gt":
                        strict = True
            where = b.root.split("::")[-1]
            if ok and not strict:
                run.ok(rule, "%s: left_side_bearings[g - n] under g >= n" % where)
            else:
                run.fail(rule, "hmtx-boundary:%s" % b.root, "%s reads left_side_bearings[g - n] under %s: the glyph whose id equals numberOfHMetrics gets the "
                         "bearing of the last long metric instead of leftSideBearings[0]" % (b.path, "g > n" if strict else "no g >= n test on the same values"), b.loc(t))
    if n < 1:
        run.anchor_missing(rule, "left_side_bearings[g - n] reads (found %d)" % n)


# ---- T07-REMAP: every composite that goes into the subset has had its components renumbered ---------------------------------------------
def t07_remap(run, fx):
    rule = "T07-REMAP"
    run.rule(rule, "TrueType subset: a composite glyph refers to its components by glyph id, and the subset renumbers glyphs, so every composite record "
                   "that is pushed into the subset must have gone through add_glyph (which pulls the components in and stores their new ids; its id "
                   "discipline is T07-ID). In GlyfTable::subset every path from the function entry to a push of a record either takes the false edge "
                   "of a test of record.is_composite() or passes the call of add_glyph - no other condition (a fast path for 'all glyphs requested', a "
                   "cache) may route a composite round it")
    b = fx.body("tables::glyf::subset::<impl tables::glyf::GlyfTable<'a>>::subset")
    if b is None:
        return run.anchor_missing(rule, "GlyfTable::subset")
    prov = sym.Prov(b)
    pushes = [bi for bi, t in b.calls() if callee_is(t, "Vec::<T, A>::push", "Vec::<T>::push") and "SubsetGlyph" in (b.operand_ty(t["args"][1]) if hasattr(b, "operand_ty") else "SubsetGlyph")]
    adds = {bi for bi, t in b.calls() if callee_is(t, "glyf::subset::add_glyph")}
    tests = {}
    for bi in range(len(b.blocks)):
        t = b.term(bi)
        if b.reachable(bi) and t["k"] == "switch":
            d = sym.strip(prov.op(t["discr"]))
            if d[0] == "call" and str(d[1]).endswith("::is_composite"):
                for v, tgt in t["arms"]:
                    if v == 0:
                        tests[bi] = tgt
    if not pushes or not adds or not tests:
        return run.anchor_missing(rule, "push of a SubsetGlyph / call of add_glyph / test of is_composite() in GlyfTable::subset (%d/%d/%d)" % (len(pushes), len(adds), len(tests)))
    # edge-wise reachability from the entry, never entering add_glyph and never taking the not-composite edge
    seen, todo = set(), [0]
    while todo:
        x = todo.pop()
        if x in seen or x in adds:
            continue
        seen.add(x)
        for y in b.succs(x):
            if x in tests and y == tests[x]:
                # the same block may also be the target of the other arm (a degenerate test); then it stays reachable through that arm
                t = b.term(x)
                others = [tg for v, tg in t["arms"] if v != 0] + ([t["otherwise"]] if t.get("otherwise") is not None else [])
                if y not in others:
                    continue
            todo.append(y)
    bad = [p for p in pushes if p in seen]
    if bad:
        run.fail(rule, "remap:bypass", "a record can reach the subset (push at %s) without either being tested as not composite or going through add_glyph: a composite "
                 "copied this way keeps the component ids of the source font" % b.loc(b.term(bad[0])), b.loc(b.term(bad[0])))
    else:
        run.ok(rule, "GlyfTable::subset: %d push(es); each is reached only past the not-composite edge or add_glyph" % len(pushes))


def check(run, fx, tier, floors=True):
    import bsearch
    bsearch.rule_bsearch(run, fx, "T07-BS", select=lambda b: b.file.startswith(('src/subset.rs', 'src/tables/glyf/subset.rs', 'src/cff/subset.rs', 'src/cff/cff2.rs')), floors=floors, floor_n=0)
    if floors or any(b.path.endswith("cff::charstring::convert_cff2_to_cff") for b in fx.bodies):
        # subsetting CFF2 to CFF re-emits every operator through From<VisitOp> for u8: the operator tables are part of "outlines are preserved"
        import rules_C18
        rules_C18.t18_ops(run, fx, floors)
        rules_C18.t18_vop(run, fx, floors)
    if floors or any(callee_is(t, "cff::subset::rebuild_local_subr_indices") for b in fx.bodies for _, t in b.calls()):
        t07_subr(run, fx)
        t07_bias(run, fx)
        t07_sent(run, fx)
    if floors or fx.body("subset::create_hmtx_table") is not None:
        t07_hmtx(run, fx)
    if floors:
        # a subset or instanced CFF font starts with the header the writer emits: its announced size must be the size written (shared with C15)
        import rules_C15
        rules_C15.c15_s(run, fx, floors)
    t07_id(run, fx, floors)
    if floors or fx.body("tables::glyf::subset::<impl tables::glyf::GlyfTable<'a>>::subset") is not None:
        t07_remap(run, fx)
    t07_map(run, fx)
    if floors or fx.body("tables::glyf::GlyfRecord::<'a>::is_composite") is not None:
        t07_comp(run, fx)
