"""Guard recognition (DESIGN 5B): which blocks are only entered when a fallible call succeeded,
or when a comparison holds."""
import re

from facts import op_local, op_place, callee_is

# wrappers that map the success variant of their argument to the success variant of their result
SUCCESS_PRESERVING = (
    "std::ops::Try::branch", "std::result::Result::<T, E>::ok", "std::option::Option::<T>::ok_or",
    "std::option::Option::<T>::ok_or_else", "std::result::Result::<T, E>::map_err",
    "std::result::Result::<T, E>::map", "std::option::Option::<T>::map",
    "std::convert::From::from", "std::convert::Into::into", "std::result::Result::<T, E>::or",
)


def success_discr(ty):
    """discriminant value of the success variant for Result/Option/ControlFlow types"""
    if ty.startswith("std::result::Result<"):
        return 0
    if ty.startswith("std::option::Option<"):
        return 1
    if ty.startswith("std::ops::ControlFlow<"):
        return 0
    return None


def uses_of_local(body, l):
    """(bb, kind, item) where local l is read as a whole-local operand or as the base of a place"""
    out = []
    for bi, b in enumerate(body.blocks):
        if not body.reachable(bi):
            continue
        for s in b["s"]:
            if s["k"] == "assign":
                rv = s["rv"]
                for key in ("op", "a", "b"):
                    o = rv.get(key)
                    if o and o["k"] in ("copy", "move") and o["p"]["l"] == l:
                        out.append((bi, "stmt", s))
                if rv.get("p") and rv["p"]["l"] == l:
                    out.append((bi, "stmt", s))
                for f in rv.get("fields", []):
                    if f["k"] in ("copy", "move") and f["p"]["l"] == l:
                        out.append((bi, "stmt", s))
        t = b["t"]
        if t["k"] == "call":
            for a in t["args"]:
                if a["k"] in ("copy", "move") and a["p"]["l"] == l:
                    out.append((bi, "call", t))
        elif t["k"] == "switch":
            o = t["discr"]
            if o["k"] in ("copy", "move") and o["p"]["l"] == l:
                out.append((bi, "switch", t))
    return out


def success_blocks(body, local, depth=0):
    """blocks whose entry implies that `local` (a Result/Option/ControlFlow value) is in its
    success variant. Follows success-preserving wrappers and `discriminant` + switch."""
    out = []
    if depth > 6:
        return out
    ty = body.local_ty(local)
    sd = success_discr(ty)
    if sd is None:
        return out
    for bi, kind, item in uses_of_local(body, local):
        if kind == "stmt" and item["rv"]["k"] == "discr" and not item["rv"]["p"]["p"]:
            dl = item["p"]["l"]
            for bj, k2, sw in uses_of_local(body, dl):
                if k2 != "switch":
                    continue
                for val, tgt in sw["arms"]:
                    if val == sd and body.preds(tgt) == [bj]:
                        out.append(tgt)
                # `otherwise` is the success arm when every other variant is listed
                listed = [v for v, _ in sw["arms"]]
                if sd not in listed and len(listed) == 1 and body.preds(sw["otherwise"]) == [bj]:
                    out.append(sw["otherwise"])
        elif kind == "stmt" and item["rv"]["k"] == "use" and not item["p"]["p"] and op_local(item["rv"]["op"]) == local:
            out.extend(success_blocks(body, item["p"]["l"], depth + 1))
        elif kind == "call" and callee_is(item, *SUCCESS_PRESERVING) and not item["dest"]["p"]:
            if len(item["args"]) >= 1 and op_local(item["args"][0]) == local:
                out.extend(success_blocks(body, item["dest"]["l"], depth + 1))
    return out


def unwrapped_value_locals(body, local, depth=0):
    """locals that hold the success payload of `local` (via unwrap/expect/?/Ok(x) pattern)"""
    out = []
    if depth > 6:
        return out
    for bi, kind, item in uses_of_local(body, local):
        if kind == "call" and not item["dest"]["p"] and len(item["args"]) >= 1 and op_local(item["args"][0]) == local:
            if callee_is(item, "::unwrap", "::expect", "::unwrap_or_default"):
                out.append(item["dest"]["l"])
            elif callee_is(item, *SUCCESS_PRESERVING):
                out.extend(unwrapped_value_locals(body, item["dest"]["l"], depth + 1))
        elif kind == "stmt" and item["rv"]["k"] == "use":
            p = op_place(item["rv"]["op"])
            if p and p["l"] == local and not item["p"]["p"]:
                projs = p["p"]
                if not projs:
                    out.extend(unwrapped_value_locals(body, item["p"]["l"], depth + 1))
                elif len(projs) == 2 and isinstance(projs[0], dict) and "d" in projs[0] and isinstance(projs[1], dict) and projs[1].get("f") == 0:
                    if projs[0]["d"] == success_discr(body.local_ty(local)):
                        out.append(item["p"]["l"])
    return out


INT_TYS = ("u8", "u16", "u32", "u64", "u128", "usize", "i8", "i16", "i32", "i64", "i128", "isize", "char")
CMP_FLIP = {"Lt": "Gt", "Gt": "Lt", "Le": "Ge", "Ge": "Le", "Eq": "Eq", "Ne": "Ne"}
CMP_NEG = {"Lt": "Ge", "Gt": "Le", "Le": "Gt", "Ge": "Lt", "Eq": "Ne", "Ne": "Eq"}


def branch_conditions(body, prov):
    """for every switch on a bool produced by a comparison: list of
    (true_block|None, false_block|None, op, a_term, b_term, switch_bb). A block is reported only
    when it is entered exclusively through that edge. Switches on a bool *variable* that merges the arms of a
    short-circuit expression (`let ok = a <= x && x <= b; if ok {..}`) contribute the comparisons that are known to
    hold on each edge (see via_bool_locals)."""
    key = ("branch_conditions", id(prov))
    cache = body.__dict__.setdefault("_guard_cache", {})
    if key in cache:
        return cache[key]
    base = (direct_branch_conditions(body, prov) + checked_sub_conditions(body, prov) + payload_conditions(body, prov)
            + range_contains_conditions(body, prov))
    out = base + via_bool_locals(body, prov, base)
    cache[key] = out
    return out


def checked_sub_conditions(body, prov):
    """`a.checked_sub(b)` is None exactly when a < b (unsigned operands): the None arm of a match on it is a block where a < b
    holds, the Some arm (and every block reached only with the success payload, e.g. after `.ok_or(..)?`) one where a >= b holds.
    Reported in the format of branch_conditions with op Lt."""
    out = []
    for bi, t in body.calls():
        p = t["callee"].get("path") or ""
        if not re.search(r"core::num::<impl (u8|u16|u32|u64|u128|usize)>::checked_sub$", p) or t["dest"]["p"] or len(t["args"]) != 2:
            continue
        a, c = prov.op(t["args"][0]), prov.op(t["args"][1])
        d = t["dest"]["l"]
        for sb in success_blocks(body, d):
            out.append((None, sb, "Lt", a, c, bi))
        # the None arm of a direct match on the Option
        for bj, kind, item in uses_of_local(body, d):
            if kind == "stmt" and item["rv"]["k"] == "discr" and not item["rv"]["p"]["p"]:
                dl = item["p"]["l"]
                for bk, k2, sw in uses_of_local(body, dl):
                    if k2 != "switch":
                        continue
                    for val, tgt in sw["arms"]:
                        if val == 0 and body.preds(tgt) == [bk]:
                            out.append((tgt, None, "Lt", a, c, bk))
    return out


_RANGE_NEW = re.compile(r"= (?:std|core)::ops::RangeInclusive::<(\w+)>::new\(const (.+?), const (.+?)\) ->")
_RANGE_AGG = re.compile(r"= (?:std|core)::ops::Range::<(\w+)> \{ start: const (.+?), end: const (.+?) \}$")


def _const_of_text(txt, ty):
    """the value of a constant as MIR prints it: 5_u32, -3_i16, 'a', '\\u{f000}'"""
    txt = txt.strip()
    if ty == "char":
        m = re.match(r"^'\\u\{([0-9a-fA-F]+)\}'$", txt)
        if m:
            return int(m.group(1), 16)
        if len(txt) == 3 and txt[0] == txt[2] == "'":
            return ord(txt[1])
        return None
    m = re.match(r"^(-?\d+)_" + re.escape(ty) + "$", txt)
    return int(m.group(1)) if m else None


def range_bounds(term):
    """(lo term, hi term, hi inclusive?) of a range value: a promoted `a..=b` / `a..b` of literals, `RangeInclusive::new(a, b)`, or the
    aggregate `Range { start, end }`; None when the term is none of these"""
    import sym
    t = sym.strip(term)
    while t[0] in ("ref", "deref"):
        t = sym.strip(t[1])
    if t[0] == "promoted":
        for st in t[1]:
            for rx, incl in ((_RANGE_NEW, True), (_RANGE_AGG, False)):
                m = rx.search(st)
                if m and m.group(1) in INT_TYS:
                    ty = m.group(1)
                    lo, hi = _const_of_text(m.group(2), ty), _const_of_text(m.group(3), ty)
                    if lo is None or hi is None:
                        return None
                    return (("c", lo, ty, m.group(2)), ("c", hi, ty, m.group(3)), incl)
        return None
    if t[0] == "call" and re.search(r"ops::(range::)?RangeInclusive::<\w+>::new$", t[1] or "") and len(t[2]) == 2:
        return (t[2][0], t[2][1], True)
    if t[0] == "agg" and re.search(r"ops::(range::)?Range$", str(t[1])) and len(t[3]) == 2 and tuple(t[4] or ()) == ("start", "end"):
        return (t[3][0], t[3][1], False)
    return None


def range_contains_conditions(body, prov):
    """`(a..=b).contains(&x)` / `(a..b).contains(&x)`: on the true edge a <= x and x <= b (x < b) hold. The false edge is a
    disjunction and contributes nothing."""
    out = []
    for tb, fb, call, sw in bool_call_conditions(body, prov):
        if tb is None or not re.search(r"ops::(range::)?Range(Inclusive)?::<\w+>::contains$", call[1] or "") or len(call[2]) != 2:
            continue
        rb = range_bounds(call[2][0])
        if rb is None:
            continue
        x = canon(("deref", call[2][1]))
        lo, hi, incl = rb
        out.append((tb, None, "Ge", x, lo, sw))
        out.append((tb, None, "Le" if incl else "Lt", x, hi, sw))
    return out


def canon(t, atoms=()):
    """cancel ref/deref pairs at every depth, leaving the sub-terms in `atoms` (compared by identity) untouched"""
    if not isinstance(t, tuple) or not t or not isinstance(t[0], str):
        return t
    if any(t is a for a in atoms):
        return t
    t = tuple(canon(x, atoms) if isinstance(x, tuple) and x and isinstance(x[0], str) else
              (tuple(canon(y, atoms) for y in x) if isinstance(x, tuple) else x) for x in t)
    if t[0] == "deref" and isinstance(t[1], tuple) and t[1] and t[1][0] == "ref":
        return t[1][1]
    if t[0] == "ref" and isinstance(t[1], tuple) and t[1] and t[1][0] == "deref":
        return t[1][1]
    return t


def rewrite(t, f):
    """rebuild term t bottom-up, replacing every sub-term x for which f(x) is not None"""
    if not isinstance(t, tuple) or not t or not isinstance(t[0], str):
        return t
    r = f(t)
    if r is not None:
        return r
    return tuple(rewrite(x, f) if isinstance(x, tuple) and x and isinstance(x[0], str) else
                 (tuple(rewrite(y, f) for y in x) if isinstance(x, tuple) else x) for x in t)


def closure_truth(cb):
    """comparisons (op, a, b), in the closure's own terms, that hold whenever the bool closure returns true: those whose edge
    dominates every assignment of a result other than `false`, and the result expression itself when it is the only one and a comparison"""
    import sym
    pv = sym.Prov(cb)
    if cb.local_ty(0) != "bool":
        return []
    true_sites = []
    for bi in range(len(cb.blocks)):
        if not cb.reachable(bi):
            continue
        for st in cb.stmts(bi):
            if st["k"] == "assign" and st["p"]["l"] == 0 and not st["p"]["p"]:
                v = sym.strip(pv.rvalue(st["rv"]))
                if v[0] == "c" and v[1] in (0, False):
                    continue
                true_sites.append((bi, v))
        t = cb.term(bi)
        if t["k"] == "call" and t["dest"]["l"] == 0 and not t["dest"]["p"]:
            true_sites.append((bi, None))
    if not true_sites:
        return []
    out = []
    for tb, fb, op, a, c, sw in direct_branch_conditions(cb, pv):
        if tb is not None and all(cb.dominates(tb, bi) for bi, _ in true_sites):
            out.append((op, a, c))
        if fb is not None and all(cb.dominates(fb, bi) for bi, _ in true_sites) and CMP_NEG.get(op):
            out.append((CMP_NEG[op], a, c))
    if len(true_sites) == 1 and true_sites[0][1] is not None:
        v = true_sites[0][1]
        neg = False
        while v[0] == "un" and v[1] == "Not":
            neg = not neg
            v = sym.strip(v[2])
        if v[0] == "bin" and v[1] in CMP_FLIP:
            out.append((CMP_NEG[v[1]] if neg else v[1], v[2], v[3]))
    return out


def payload_conditions(body, prov):
    """`iter.find(|x| p(x))` / `opt.filter(|x| p(x))` hand out only values for which the predicate returned true: in every block that is
    entered with the `Some` payload, the comparisons that hold whenever the closure returns true hold for the payload (closure
    parameter -> payload, closure captures -> the captured values of the caller)."""
    import sym
    fx = getattr(body, "fx", None)
    if fx is None:
        return []
    out = []
    for bi, t in body.calls():
        p = t["callee"].get("path") or ""
        if not p.endswith(("Iterator::find", "Option::<T>::filter")) or len(t["args"]) != 2 or t["dest"]["p"]:
            continue
        clo = sym.strip(prov.op(t["args"][1]))
        if not (clo[0] == "agg" and clo[1] == "closure" and clo[2]):
            continue
        cb = fx.body(clo[2])
        if cb is None or cb.arg_count != 2:
            continue
        truths = closure_truth(cb)
        if not truths:
            continue
        caps = clo[3]
        call_term = prov.local(t["dest"]["l"])
        payloads = [("field", ("variant", call_term, "Some"), "0")]
        # `iter.find(..)?` in a function that returns Option: the payload is read through Try::branch
        for bj, t2 in body.calls():
            if (t2["callee"].get("path") or "").endswith("Try::branch") and t2["args"] and not t2["dest"]["p"]:
                a0 = t2["args"][0]
                if a0["k"] in ("copy", "move") and not a0["p"]["p"] and a0["p"]["l"] == t["dest"]["l"]:
                    payloads.append(("field", ("variant", prov.local(t2["dest"]["l"]), "Continue"), "0"))
        by_ref = (cb.local_ty(2) or "").startswith("&")
        payload = payloads[0]

        def sub(x):
            if by_ref and x[0] == "deref" and x[1][0] == "arg" and x[1][1] == 2:
                return payload
            if not by_ref and x[0] == "arg" and x[1] == 2:
                return payload
            if x[0] == "field" and str(x[2]).isdigit() and int(x[2]) < len(caps):
                base = x[1]
                while base[0] in ("deref", "ref"):
                    base = base[1]
                if base[0] == "arg" and base[1] == 1:
                    return caps[int(x[2])]
            return None
        sbs = success_blocks(body, t["dest"]["l"])
        for payload in payloads:
            for op, a, c in truths:
                atoms = (payload,) + tuple(caps)
                a2, c2 = canon(rewrite(a, sub), atoms), canon(rewrite(c, sub), atoms)
                # a closure parameter or capture that could not be mapped leaves the fact unusable
                if any(x[0] == "arg" for x in _walk(a2)) or any(x[0] == "arg" for x in _walk(c2)):
                    if not all(_caller_arg(body, x) for x in list(_walk(a2)) + list(_walk(c2)) if x[0] == "arg"):
                        continue
                for sb in sbs:
                    out.append((sb, None, op, a2, c2, bi))
    return out


def _walk(t):
    import sym
    return sym.walk(t)


def _caller_arg(body, x):
    # after substitution an ('arg', n, name) term must denote a parameter of the *caller*: it came in through a capture
    return 1 <= x[1] <= body.arg_count and body.local_name(x[1]) == x[2]


def _acyclic(body, region):
    """no cycle inside the sub-graph induced by `region`"""
    state = {}
    for root in region:
        if root in state:
            continue
        stack = [(root, iter([x for x in body.succs(root) if x in region]))]
        state[root] = 1
        while stack:
            n, it = stack[-1]
            adv = False
            for m in it:
                if state.get(m) == 1:
                    return False
                if m not in state:
                    state[m] = 1
                    stack.append((m, iter([x for x in body.succs(m) if x in region])))
                    adv = True
                    break
            if not adv:
                state[n] = 2
                stack.pop()
    return True


def via_bool_locals(body, prov, base):
    """A switch S on a bool local m with several whole definitions (the arms of `a && b`, `a || b`, `if c { x } else { false }`):
    on the true edge the value came from a definition other than `m = false`, on the false edge from one other than `m = true`.
    Every comparison whose edge dominates the blocks of all those definitions held when m was computed; when a single such
    definition is itself a comparison, it holds (or fails) too. Sound only if m was computed freshly for this test: all
    definitions of m lie in the acyclic region between their common dominator N and S (each block of it runs at most once between
    the last visit of N and S), m is never borrowed, and the values compared are SSA values."""
    out = []
    defs = body.defs()
    idom = body.idom()
    borrowed = None
    for si, blk in enumerate(body.blocks):
        t = blk["t"]
        if t["k"] != "switch" or not body.reachable(si) or t.get("dty") != "bool":
            continue
        term = prov.op(t["discr"])
        neg = False
        while term[0] == "un" and term[1] == "Not":
            neg = not neg
            term = term[2]
        if term[0] != "local":
            continue
        m = term[1]
        ds = defs.get(m, [])
        if len(ds) < 2 or any(d[2] not in ("assign", "call") for d in ds) or (1 <= m <= body.arg_count):
            continue
        if body.local_ty(m) != "bool":
            continue
        if borrowed is None:
            borrowed = set()
            for b2 in body.blocks:
                for st in b2["s"]:
                    rv = st.get("rv") or {}
                    if st.get("k") == "assign" and rv.get("k") in ("ref", "rawptr") and not rv["p"]["p"]:
                        borrowed.add(rv["p"]["l"])
        if m in borrowed:
            continue
        dblocks = [d[0] for d in ds if body.reachable(d[0])]
        if not dblocks:
            continue
        n = si
        while not all(body.dominates(n, db) for db in dblocks):
            if n == 0:
                n = None
                break
            n = idom[n]
        if n is None:
            continue
        fw = body.reach_from(n, avoid=frozenset([si])) if n != si else {si}
        rev = set()
        st = [si]
        while st:
            x = st.pop()
            if x in rev:
                continue
            rev.add(x)
            if x != n:
                st.extend(p for p in body.preds(x) if p in fw)
        region = (fw & rev) | {n}
        if any(db not in region and db != si for db in dblocks) or not _acyclic(body, region - {si}):
            continue
        false_b = None
        for val, tgt in t["arms"]:
            if val == 0:
                false_b = tgt
        true_b = t["otherwise"]
        if false_b is None:
            continue
        if neg:
            true_b, false_b = false_b, true_b
        vals = []
        for bb, idx, kind, item in ds:
            if not body.reachable(bb):
                continue
            v = prov.rvalue(item["rv"]) if kind == "assign" else ("call",)
            while v[0] in ("copy",):
                v = v[1]
            vals.append((bb, v))
        for edge_true, tgt in ((True, true_b), (False, false_b)):
            if body.preds(tgt) != [si]:
                continue
            contrib = [(bb, v) for bb, v in vals if not (v[0] == "c" and bool(v[1]) == (not edge_true) and v[1] in (0, 1, True, False))]
            if not contrib:
                continue
            for tb, fb, op, a, c, sw in base:
                if tb is not None and all(body.dominates(tb, bb) for bb, _ in contrib):
                    out.append((tgt, None, op, a, c, si))
                if fb is not None and all(body.dominates(fb, bb) for bb, _ in contrib):
                    out.append((None, tgt, op, a, c, si))
            if len(contrib) == 1:
                v = contrib[0][1]
                vneg = False
                while v[0] == "un" and v[1] == "Not":
                    vneg = not vneg
                    v = v[2]
                if v[0] == "bin" and v[1] in CMP_FLIP:
                    holds = edge_true != vneg
                    out.append((tgt, None, v[1], v[2], v[3], si) if holds else (None, tgt, v[1], v[2], v[3], si))
    return out


def direct_branch_conditions(body, prov):
    out = []
    for bi, b in enumerate(body.blocks):
        t = b["t"]
        if t["k"] != "switch" or not body.reachable(bi):
            continue
        if t.get("dty") != "bool":
            # `match n { 0 => .., 7 => .., other => .. }` on an integer: each arm is `n == k`, the fall-through arm `n != k` for every k
            if t.get("dty") in INT_TYS:
                d = prov.op(t["discr"])
                if d[0] != "discr":
                    oth = t["otherwise"] if body.preds(t["otherwise"]) == [bi] and body.term(t["otherwise"])["k"] != "unreachable" else None
                    for val, tgt in t["arms"]:
                        k = ("c", val, t["dty"], "%s_%s" % (val, t["dty"]))
                        tb_ = tgt if body.preds(tgt) == [bi] else None
                        if tb_ is not None or oth is not None:
                            out.append((tb_, oth, "Eq", d, k, bi))
            continue
        term = prov.op(t["discr"])
        neg = False
        while term[0] == "un" and term[1] == "Not":
            neg = not neg
            term = term[2]
        if term[0] != "bin" or term[1] not in CMP_FLIP:
            continue
        false_b = None
        true_b = None
        for val, tgt in t["arms"]:
            if val == 0:
                false_b = tgt
        true_b = t["otherwise"]
        if false_b is None:
            continue
        if neg:
            true_b, false_b = false_b, true_b
        tb = true_b if body.preds(true_b) == [bi] else None
        fb = false_b if body.preds(false_b) == [bi] else None
        out.append((tb, fb, term[1], term[2], term[3], bi))
    return out


def bool_call_conditions(body, prov):
    """for every switch on a bool returned by a call: (true_block|None, false_block|None, call term, switch_bb)"""
    out = []
    for bi, b in enumerate(body.blocks):
        t = b["t"]
        if t["k"] != "switch" or not body.reachable(bi) or t.get("dty") != "bool":
            continue
        term = prov.op(t["discr"])
        neg = False
        while term[0] == "un" and term[1] == "Not":
            neg = not neg
            term = term[2]
        if term[0] != "call":
            continue
        false_b = None
        for val, tgt in t["arms"]:
            if val == 0:
                false_b = tgt
        true_b = t["otherwise"]
        if false_b is None:
            continue
        if neg:
            true_b, false_b = false_b, true_b
        tb = true_b if body.preds(true_b) == [bi] else None
        fb = false_b if body.preds(false_b) == [bi] else None
        out.append((tb, fb, term, bi))
    return out
