"""Run context: obligations, ledgers, known findings, violations, evidence."""
import json
import os
import sys
import time
from collections import Counter, defaultdict

VERIF = os.path.dirname(os.path.dirname(os.path.dirname(os.path.abspath(__file__))))


def load_jsonl(path):
    out = []
    if os.path.exists(path):
        with open(path) as fh:
            for ln in fh:
                ln = ln.strip()
                if ln and not ln.startswith("#"):
                    out.append(json.loads(ln))
    return out


def load_known():
    """known_findings.txt: `known: {json}` lines suppress exactly their key; `fixed:` lines suppress nothing"""
    out = []
    p = os.path.join(VERIF, "known_findings.txt")
    if os.path.exists(p):
        with open(p) as fh:
            for ln in fh:
                ln = ln.strip()
                if ln.startswith("known:"):
                    out.append(json.loads(ln[len("known:"):].strip()))
    return out


class Ledger:
    """audited exceptions of one rule: key -> (count, reason). Keys never contain line numbers."""

    def __init__(self, rule):
        self.rule = rule
        self.path = os.path.join(VERIF, "ledger", rule + ".jsonl")
        self.entries = {}
        for e in load_jsonl(self.path):
            self.entries[e["key"]] = e
        self.used = Counter()

    def allows(self, key):
        e = self.entries.get(key)
        if e is None:
            return None
        self.used[key] += 1
        if self.used[key] > e.get("count", 1):
            return None
        return e

    def stale(self):
        seen = Counter(getattr(self, "seen_max", {}))
        for k, v in self.used.items():
            seen[k] = max(seen[k], v)
        return [k for k, e in self.entries.items() if seen[k] < e.get("count", 1)]


class Run:
    def __init__(self, pid, tier, level="other"):
        self.pid = pid
        self.tier = tier
        self.level = level
        self.t0 = time.time()
        self.seed = int(os.environ.get("VERIF_SEED", "0") or 0)
        self.obligations = 0
        self.discharged = 0
        self.audited = 0
        self.by_rule = defaultdict(lambda: {"obligations": 0, "discharged": 0, "audited": 0, "known_findings": 0, "violations": 0})
        self.samples = []
        self.violations = []
        self.known_hits = []
        self.notes = []
        self.assumptions = []
        self.configs = []
        self.analysed = {}
        self.ledgers = {}
        self.explanation = ""
        self.not_decided = ""
        self.known = load_known()
        self.known_used = Counter()
        self.rule_text = {}
        self.config = None

    # ---- bookkeeping ----
    def set_config(self, cfg):
        """each feature configuration is a separate program: ledger and known-finding budgets apply per configuration"""
        self.config = cfg
        if cfg not in self.configs:
            self.configs.append(cfg)
        for l in self.ledgers.values():
            l.seen_max = getattr(l, "seen_max", Counter())
            for k, v in l.used.items():
                l.seen_max[k] = max(l.seen_max[k], v)
            l.used = Counter()
        self.known_used = Counter()

    def rule(self, rule, text):
        self.rule_text[rule] = text

    def ledger(self, rule):
        if rule not in self.ledgers:
            self.ledgers[rule] = Ledger(rule)
        return self.ledgers[rule]

    def sample(self, rule, text):
        n = sum(1 for s in self.samples if s.startswith(rule + ":"))
        if n < 6:
            self.samples.append("%s: %s" % (rule, text))

    def ok(self, rule, text=None):
        """one obligation discharged by the rule's structural evidence"""
        self.obligations += 1
        self.discharged += 1
        r = self.by_rule[rule]
        r["obligations"] += 1
        r["discharged"] += 1
        if text:
            self.sample(rule, text)

    def fail(self, rule, key, message, site="", path=None, ledger=None, alt_keys=()):
        """an obligation the rule could not discharge: audited exception, known finding or violation.
        `key` is the semantic, line-free identity of the instance. `alt_keys`: the same key under the functions that alone call the
        site's function - an audited site that moved into a private helper of the audited function is still covered by that audit
        (budgets are exact counts, so the unit it uses is the one the site freed in the caller; an additional site exceeds them)."""
        self.obligations += 1
        r = self.by_rule[rule]
        r["obligations"] += 1
        if ledger is not None:
            for k_ in (key,) + tuple(alt_keys):
                e = self.ledger(ledger).allows(k_)
                if e is not None:
                    self.audited += 1
                    self.discharged += 1
                    r["audited"] += 1
                    r["discharged"] += 1
                    return "audited"
        for k in self.known:
            if k["rule"] == rule and k["key"] == key:
                ident = (rule, key)
                self.known_used[ident] += 1
                if self.known_used[ident] <= k.get("count", 1):
                    r["known_findings"] += 1
                    if self.known_used[ident] == 1:
                        self.known_hits.append((rule, key, k.get("what", message)))
                    return "known"
        r["violations"] += 1
        self.violations.append({"rule": rule, "key": key, "message": message, "site": site, "path": path or [],
                                "config": self.config})
        return "violation"

    def anchor_missing(self, rule, what):
        return self.fail(rule, "ANCHOR-MISSING:" + what, "anchor not found / below floor: %s (the rule would pass vacuously; failing closed)" % what)

    def floor(self, rule, what, got, floor):
        # floors are the counts confirmed by hand on the superset configuration; configurations that compile
        # less code (no `outline`, no `prince`) legitimately have fewer instances
        if self.config not in (None, "prince", "planted"):
            self.notes.append("%s [%s] %s: %d (floor %d applies to the prince configuration)" % (rule, self.config, what, got, floor))
            return
        # A floor guards against a rule that silently stops matching (extraction failure, renamed anchor): that shows as a collapse of
        # the count, not as the loss of a few sites. Behaviour-preserving edits do remove sites (`a - b` under a test rewritten as
        # `checked_sub`, two calls merged into one), so counts of 8 and more tolerate a 10 % drop; small counts are exact.
        eff = floor if floor < 8 else (floor * 9) // 10
        if got < eff:
            self.fail(rule, "FLOOR:" + what, "rule matched %d instance(s) of %s, fewer than the %d confirmed by hand (tolerance to %d; fail closed)" % (got, what, floor, eff))
        else:
            self.notes.append("%s floor %s: %d >= %d (confirmed %d)" % (rule, what, got, eff, floor))

    # ---- output ----
    def finish(self):
        wall = round(time.time() - self.t0, 2)
        outdir = os.path.join(VERIF, "out", self.pid)
        os.makedirs(outdir, exist_ok=True)
        for f in os.listdir(outdir):
            try:
                os.remove(os.path.join(outdir, f))
            except OSError:
                pass
        # dedupe identical violations found in several configurations
        seen = {}
        for v in self.violations:
            ident = (v["rule"], v["key"], v["site"])
            if ident in seen:
                seen[ident]["configs"].append(v["config"])
            else:
                v["configs"] = [v["config"]]
                seen[ident] = v
        vio = list(seen.values())
        seenk = set()
        for rule, key, what in self.known_hits:
            if (rule, key) in seenk:
                continue
            seenk.add((rule, key))
            print("KNOWN-FINDING: property=%s rule=%s key=%s :: %s" % (self.pid, rule, key, what))
        stale = {}
        for name, l in self.ledgers.items():
            s = l.stale()
            if s:
                stale[name] = s
        for i, v in enumerate(vio):
            p = os.path.join(outdir, "%d.json" % i)
            v["property"] = self.pid
            v["rule_text"] = self.rule_text.get(v["rule"], "")
            with open(p, "w") as fh:
                json.dump(v, fh, indent=1)
            print("VIOLATION property=%s replay=%s" % (self.pid, p))
            print("  rule %s @ %s" % (v["rule"], v["site"]))
            print("  key  %s" % v["key"])
            print("  %s" % v["message"])
            for step in v.get("path") or []:
                print("    via %s" % step)
        coverage = {
            "obligations": self.obligations,
            "discharged": self.discharged,
            "audited_exceptions": self.audited,
            "known_findings": len(seenk),
            "violations": len(vio),
            "checker_cmd": "./vf check %s --tier %s" % (self.pid, self.tier),
            "trusted_base": [
                "rustc nightly MIR construction, type checking and const evaluation",
                "the mirfacts driver's export of MIR/HIR facts (engine/mirfacts)",
                "the rule encodings in engine/rules and the audited ledgers under ledger/",
                "the documented contracts of std/core functions the rules name",
                "the planted fixture self-check (each rule fires on its planted violation and is silent on the twin)",
            ],
            "explanation": self.explanation,
            "not_decided": self.not_decided,
            "rules": {k: dict(v, text=self.rule_text.get(k, "")) for k, v in sorted(self.by_rule.items())},
            "samples": self.samples[:60] or ["(no samples)"],
            "analysed": self.analysed,
            "configurations": self.configs,
            "notes": self.notes[:80],
            "stale_ledger_keys": stale,
            "exhaustive": True,
        }
        ev = {
            "property_id": self.pid,
            "tier": self.tier,
            "seed": self.seed,
            "level": self.level,
            "coverage": coverage,
            "assumptions": self.assumptions,
            "wall_s": wall,
            "violations": len(vio),
        }
        os.makedirs(os.path.join(VERIF, "evidence"), exist_ok=True)
        with open(os.path.join(VERIF, "evidence", self.pid + ".json"), "w") as fh:
            json.dump(ev, fh, indent=1)
        print("%s %s: %d obligations, %d discharged (%d audited), %d known finding(s), %d violation(s), %.1fs" % (
            self.pid, self.tier, self.obligations, self.discharged, self.audited, len(seenk), len(vio), wall))
        return 1 if vio else 0
