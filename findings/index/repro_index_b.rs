// Scratch audit test (group B): nested lookup at sequence index 0 after the matched glyph was deleted.
use allsorts::binary::read::ReadScope;
use allsorts::gsub::{self, FeatureInfo, FeatureMask, Features, GlyphOrigin, RawGlyph, RawGlyphFlags};
use allsorts::layout::{new_layout_cache, LayoutTable, GSUB};
use allsorts::tag;
use allsorts::tinyvec::tiny_vec;

fn be(v: u16) -> [u8; 2] {
    v.to_be_bytes()
}

fn coverage(glyph: u16) -> Vec<u8> {
    let mut d = Vec::new();
    d.extend(be(1)); // format
    d.extend(be(1)); // glyph count
    d.extend(be(glyph));
    d
}

fn lookup(lookup_type: u16, subtable: Vec<u8>) -> Vec<u8> {
    let mut d = Vec::new();
    d.extend(be(lookup_type));
    d.extend(be(0)); // flag
    d.extend(be(1)); // subtable count
    d.extend(be(8)); // subtable offset
    d.extend(subtable);
    d
}

// second_lookup_type: 1 single, 2 multiple, 3 alternate, 4 ligature, 5 context, 6 chain, 8 reverse
fn build_gsub(second: Vec<u8>) -> Vec<u8> {
    const GLYPH: u16 = 5;

    // Lookup 0: ContextSubstFormat3, one input glyph, two records both at sequence index 0
    let mut ctx = Vec::new();
    ctx.extend(be(3)); // format
    ctx.extend(be(1)); // glyph count
    ctx.extend(be(2)); // seq lookup count
    ctx.extend(be(16)); // coverage offset
    ctx.extend(be(0)); // sequence index
    ctx.extend(be(1)); // lookup 1: delete the glyph
    ctx.extend(be(0)); // sequence index
    ctx.extend(be(2)); // lookup 2
    assert_eq!(ctx.len(), 16);
    ctx.extend(coverage(GLYPH));
    let l0 = lookup(5, ctx);

    // Lookup 1: MultipleSubst, GLYPH -> empty sequence
    let mut ms = Vec::new();
    ms.extend(be(1)); // format
    ms.extend(be(10)); // coverage offset
    ms.extend(be(1)); // sequence count
    ms.extend(be(8)); // sequence offset
    ms.extend(be(0)); // Sequence: glyph count 0
    ms.extend(coverage(GLYPH));
    let l1 = lookup(2, ms);

    let l2 = second;

    let mut lookup_list = Vec::new();
    lookup_list.extend(be(3));
    let o0 = 8u16;
    let o1 = o0 + l0.len() as u16;
    let o2 = o1 + l1.len() as u16;
    lookup_list.extend(be(o0));
    lookup_list.extend(be(o1));
    lookup_list.extend(be(o2));
    lookup_list.extend(l0);
    lookup_list.extend(l1);
    lookup_list.extend(l2);

    let mut script_list = Vec::new();
    script_list.extend(be(1));
    script_list.extend(b"DFLT");
    script_list.extend(be(8));
    // Script
    script_list.extend(be(4)); // default langsys
    script_list.extend(be(0)); // langsys count
    // LangSys
    script_list.extend(be(0));
    script_list.extend(be(0xFFFF));
    script_list.extend(be(1));
    script_list.extend(be(0));
    assert_eq!(script_list.len(), 20);

    let mut feature_list = Vec::new();
    feature_list.extend(be(1));
    feature_list.extend(b"liga");
    feature_list.extend(be(8));
    feature_list.extend(be(0)); // params
    feature_list.extend(be(1)); // lookup count
    feature_list.extend(be(0)); // lookup 0
    assert_eq!(feature_list.len(), 14);

    let mut gsub = Vec::new();
    gsub.extend(be(1));
    gsub.extend(be(0));
    gsub.extend(be(10));
    gsub.extend(be(30));
    gsub.extend(be(44));
    gsub.extend(script_list);
    gsub.extend(feature_list);
    gsub.extend(lookup_list);
    gsub
}

fn single_subst() -> Vec<u8> {
    let mut ss = Vec::new();
    ss.extend(be(1)); // format
    ss.extend(be(6)); // coverage offset
    ss.extend(be(1)); // delta
    ss.extend(coverage(5));
    lookup(1, ss)
}

fn alternate_subst() -> Vec<u8> {
    let mut s = Vec::new();
    s.extend(be(1)); // format
    s.extend(be(12)); // coverage offset
    s.extend(be(1)); // alternate set count
    s.extend(be(8)); // alternate set offset
    s.extend(be(1)); // AlternateSet: glyph count
    s.extend(be(7));
    s.extend(coverage(5));
    lookup(3, s)
}

fn multiple_subst() -> Vec<u8> {
    let mut ms = Vec::new();
    ms.extend(be(1)); // format
    ms.extend(be(10)); // coverage offset
    ms.extend(be(1)); // sequence count
    ms.extend(be(8)); // sequence offset
    ms.extend(be(0)); // Sequence: glyph count 0
    ms.extend(coverage(5));
    lookup(2, ms)
}

fn ligature_subst() -> Vec<u8> {
    let mut s = Vec::new();
    s.extend(be(1)); // format
    s.extend(be(18)); // coverage offset
    s.extend(be(1)); // ligature set count
    s.extend(be(8)); // ligature set offset
    // LigatureSet @8
    s.extend(be(1)); // ligature count
    s.extend(be(4)); // ligature offset
    // Ligature @12
    s.extend(be(9)); // ligature glyph
    s.extend(be(2)); // component count
    s.extend(be(6)); // component 2
    assert_eq!(s.len(), 18);
    s.extend(coverage(5));
    lookup(4, s)
}

fn context_subst() -> Vec<u8> {
    let mut ctx = Vec::new();
    ctx.extend(be(3)); // format
    ctx.extend(be(1)); // glyph count
    ctx.extend(be(0)); // seq lookup count
    ctx.extend(be(8)); // coverage offset
    ctx.extend(coverage(5));
    lookup(5, ctx)
}

fn chain_context_subst() -> Vec<u8> {
    let mut ctx = Vec::new();
    ctx.extend(be(3)); // format
    ctx.extend(be(0)); // backtrack count
    ctx.extend(be(1)); // input count
    ctx.extend(be(12)); // coverage offset
    ctx.extend(be(0)); // lookahead count
    ctx.extend(be(0)); // seq lookup count
    assert_eq!(ctx.len(), 12);
    ctx.extend(coverage(5));
    lookup(6, ctx)
}

fn reverse_chain() -> Vec<u8> {
    let mut s = Vec::new();
    s.extend(be(1)); // format
    s.extend(be(12)); // coverage offset
    s.extend(be(0)); // backtrack count
    s.extend(be(0)); // lookahead count
    s.extend(be(1)); // glyph count
    s.extend(be(7)); // substitute
    assert_eq!(s.len(), 12);
    s.extend(coverage(5));
    lookup(8, s)
}

fn glyph(ch: char, glyph_index: u16) -> RawGlyph<()> {
    RawGlyph {
        unicodes: tiny_vec![[char; 1] => ch],
        glyph_index,
        liga_component_pos: 0,
        glyph_origin: GlyphOrigin::Char(ch),
        flags: RawGlyphFlags::empty(),
        extra_data: (),
        variation: None,
    }
}

fn run(second: Vec<u8>, features: &Features) {
    let data = build_gsub(second);
    let table = ReadScope::new(&data)
        .read::<LayoutTable<GSUB>>()
        .expect("GSUB parses");
    let cache = new_layout_cache(table);
    let mut glyphs = vec![glyph('a', 3), glyph('b', 5)];
    let res = gsub::apply(
        0,
        &cache,
        None,
        tag::LATN,
        None,
        features,
        None,
        100,
        &mut glyphs,
    );
    println!("result: {:?}, {} glyphs", res.is_ok(), glyphs.len());
}

fn mask() -> Features {
    Features::Mask(FeatureMask::default())
}

#[test]
fn nested_single_mask() {
    run(single_subst(), &mask());
}

#[test]
fn nested_single_custom() {
    run(
        single_subst(),
        &Features::Custom(vec![FeatureInfo {
            feature_tag: tag::LIGA,
            alternate: None,
        }]),
    );
}

#[test]
fn nested_alternate() {
    run(alternate_subst(), &mask());
}

#[test]
fn nested_multiple() {
    run(multiple_subst(), &mask());
}

#[test]
fn nested_ligature() {
    run(ligature_subst(), &mask());
}

#[test]
fn nested_context() {
    run(context_subst(), &mask());
}

#[test]
fn nested_chain_context() {
    run(chain_context_subst(), &mask());
}

#[test]
fn nested_reverse_chain() {
    run(reverse_chain(), &mask());
}

#[test]
#[ignore = "API-contract panic (inconsistent caller arguments), documented in ledger/index.jsonl"]
fn api_find_prev() {
    use allsorts::context::MatchType;
    let glyphs = vec![glyph('a', 3)];
    let _ = MatchType::ignore_marks().find_prev(None, &glyphs, 3);
}

#[test]
#[ignore = "API-contract panic (inconsistent caller arguments), documented in ledger/index.jsonl"]
fn api_ligature_apply() {
    use allsorts::context::MatchType;
    use allsorts::layout::Ligature;
    let lig = Ligature { ligature_glyph: 1, component_glyphs: vec![] };
    let mut glyphs = vec![glyph('a', 3)];
    let _ = lig.apply(MatchType::ignore_marks(), None, 1, &mut glyphs);
}

#[test]
#[ignore = "API-contract panic (inconsistent caller arguments), documented in ledger/index.jsonl"]
fn api_gsub_apply_lookup() {
    let data = build_gsub(multiple_subst());
    let table = ReadScope::new(&data).read::<LayoutTable<GSUB>>().expect("GSUB parses");
    let cache = new_layout_cache(table);
    let mut glyphs = vec![glyph('a', 3)];
    for lookup_index in [1usize, 0] {
        let r = std::panic::catch_unwind(std::panic::AssertUnwindSafe(|| {
            let _ = gsub::gsub_apply_lookup(&cache, &cache.layout_table, None, lookup_index, tag::LIGA, None, &mut glyphs, 0, 2, |_| true);
        }));
        println!("lookup {} panicked: {}", lookup_index, r.is_err());
    }
    panic!("done");
}
