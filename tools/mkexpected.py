#!/usr/bin/env python3
"""seeded/EXPECTED.json: per property up to 4 kept breaking changes (seeded/ and selftest/) that the property's own check reports
today, chosen to cover as many different rules as possible; used by the mutation replay of the thorough tier (engine/rules/replay.py).
Regenerate after tools/mkseeded.py refreshed the metas:   tools/mkexpected.py"""
import json
import os

HERE = os.path.dirname(os.path.dirname(os.path.abspath(__file__)))


def main():
    per = {}
    for sid in sorted(os.listdir(os.path.join(HERE, "seeded"))):
        mp = os.path.join(HERE, "seeded", sid, "meta.json")
        if not os.path.isfile(mp):
            continue
        m = json.load(open(mp))
        if not m.get("breaks") or (m.get("verdict") or "").startswith("patch does not"):
            continue
        for pid, rules in (m.get("caught_by_rules") or {}).items():
            if pid == m["breaks"]:
                per.setdefault(pid, []).append((sid, rules))
    out = {}
    for pid, cands in sorted(per.items()):
        chosen, covered = [], set()
        for _ in range(4):
            best = None
            for sid, rules in cands:
                if any(sid == c["seed"] for c in chosen):
                    continue
                gain = len(set(rules) - covered)
                if best is None or gain > best[0]:
                    best = (gain, sid, rules)
            if best is None or (best[0] == 0 and chosen):
                break
            chosen.append({"seed": best[1], "rules": best[2]})
            covered |= set(best[2])
        out[pid] = chosen
    json.dump(out, open(os.path.join(HERE, "seeded", "EXPECTED.json"), "w"), indent=1)
    print({k: [c["seed"] for c in v] for k, v in out.items()})


if __name__ == "__main__":
    main()
