// Reproductions for the arithmetic overflow panics of audit group A (fixed in /repo): copy to /repo/tests/ and run
// `cargo test --offline --test repro_arith_a` (the three #[ignore]d stems_len tests need ~9e9 interpreter steps:
// CARGO_PROFILE_TEST_OPT_LEVEL=2 cargo test --offline --test repro_arith_a -- --ignored). Every id* test panicked
// before the fixes; the #[should_panic] attributes of the audit version were removed. The ArgumentsStack tests
// (ids 48-51, direct API misuse only) were dropped.
//! Reproductions for the arithmetic-overflow audit, site list A.
//!
//! Every test drives the library through its public API only, with hand-built (malformed) table
//! bytes or a patched fixture font, and expects the overflow panic of the audited site.
//!
//! Run with: cargo test --offline --test arith_repro_a
//! The three `stems_len_*` tests execute ~9e9 charstring operators (tiny font, deeply nested
//! subroutines); they are `#[ignore]`d and are meant to be run with
//!   CARGO_PROFILE_TEST_OPT_LEVEL=2 cargo test --offline --test arith_repro_a -- --ignored
//! (opt-level 2 keeps the test profile's overflow checks and debug assertions).

use allsorts::binary::read::ReadScope;
use allsorts::cff::charstring::ArgumentsStack;
use allsorts::cff::{Charset, CFF};
use allsorts::layout::Coverage;
use allsorts::outline::{OutlineBuilder, OutlineSink};
use allsorts::pathfinder_geometry::line_segment::LineSegment2F;
use allsorts::pathfinder_geometry::vector::Vector2F;
use allsorts::subset::subset;
use allsorts::tables::variable_fonts::gvar::{GvarTable, NumPoints};
use allsorts::tables::variable_fonts::{Gvar, TupleVariationStore};
use allsorts::tables::OpenTypeFont;

// ---------------------------------------------------------------------------------------------
// helpers
// ---------------------------------------------------------------------------------------------

struct NullSink;

impl OutlineSink for NullSink {
    fn move_to(&mut self, _to: Vector2F) {}
    fn line_to(&mut self, _to: Vector2F) {}
    fn quadratic_curve_to(&mut self, _ctrl: Vector2F, _to: Vector2F) {}
    fn cubic_curve_to(&mut self, _ctrl: LineSegment2F, _to: Vector2F) {}
    fn close(&mut self) {}
}

fn be16(v: u16) -> [u8; 2] {
    v.to_be_bytes()
}

fn be32(v: u32) -> [u8; 4] {
    v.to_be_bytes()
}

/// CFF INDEX body (offSize 4) preceded by a 16-bit count (CFF) or 32-bit count (CFF2).
fn index(objects: &[Vec<u8>], count32: bool) -> Vec<u8> {
    let mut out = Vec::new();
    if count32 {
        out.extend_from_slice(&be32(objects.len() as u32));
    } else {
        out.extend_from_slice(&be16(objects.len() as u16));
    }
    if objects.is_empty() {
        return out;
    }
    out.push(4); // offSize
    let mut offset = 1u32;
    for obj in objects {
        out.extend_from_slice(&be32(offset));
        offset += obj.len() as u32;
    }
    out.extend_from_slice(&be32(offset));
    for obj in objects {
        out.extend_from_slice(obj);
    }
    out
}

/// DICT integer operand in the fixed-size 5 byte encoding.
fn int5(v: i32) -> Vec<u8> {
    let mut out = vec![29];
    out.extend_from_slice(&v.to_be_bytes());
    out
}

/// Build a minimal, well-formed apart from the supplied pieces, CFF table (Type 1 flavour):
/// header, Name INDEX, Top DICT INDEX, String INDEX (empty), Global Subr INDEX, CharStrings
/// INDEX, custom charset, empty Private DICT.
fn build_cff(char_strings: &[Vec<u8>], global_subrs: &[Vec<u8>], charset: &[u8]) -> Vec<u8> {
    let header = [1u8, 0, 4, 4];
    let name_index = index(&[b"A".to_vec()], false);
    let string_index = index(&[], false);
    let gsubr_index = index(global_subrs, false);
    let char_strings_index = index(char_strings, false);

    // Top DICT: charset(15) CharStrings(17) Private(18), all operands 5 bytes
    let top_dict_len = 6 + 6 + 11;
    let top_dict_index_len = 2 + 1 + 8 + top_dict_len;
    let char_strings_offset = header.len()
        + name_index.len()
        + top_dict_index_len
        + string_index.len()
        + gsubr_index.len();
    let charset_offset = char_strings_offset + char_strings_index.len();
    let private_offset = charset_offset + charset.len();

    let mut top_dict = Vec::new();
    top_dict.extend(int5(charset_offset as i32));
    top_dict.push(15);
    top_dict.extend(int5(char_strings_offset as i32));
    top_dict.push(17);
    top_dict.extend(int5(0)); // Private DICT size
    top_dict.extend(int5(private_offset as i32));
    top_dict.push(18);
    assert_eq!(top_dict.len(), top_dict_len);
    let top_dict_index = index(&[top_dict], false);
    assert_eq!(top_dict_index.len(), top_dict_index_len);

    let mut cff = Vec::new();
    cff.extend_from_slice(&header);
    cff.extend(name_index);
    cff.extend(top_dict_index);
    cff.extend(string_index);
    cff.extend(gsubr_index);
    assert_eq!(cff.len(), char_strings_offset);
    cff.extend(char_strings_index);
    cff.extend_from_slice(charset);
    cff
}

fn endchar_glyphs(n: usize) -> Vec<Vec<u8>> {
    vec![vec![14u8]; n]
}

fn charset_format2(ranges: &[(u16, u16)]) -> Vec<u8> {
    let mut out = vec![2u8];
    for (first, n_left) in ranges {
        out.extend_from_slice(&be16(*first));
        out.extend_from_slice(&be16(*n_left));
    }
    out
}

fn charset_format1(ranges: &[(u16, u8)]) -> Vec<u8> {
    let mut out = vec![1u8];
    for (first, n_left) in ranges {
        out.extend_from_slice(&be16(*first));
        out.push(*n_left);
    }
    out
}

fn sid_to_gid(cff_data: &[u8], sid: u16) -> Option<u16> {
    let cff = ReadScope::new(cff_data)
        .read::<CFF<'_>>()
        .expect("CFF table must load");
    cff.fonts[0].charset.sid_to_gid(sid)
}

// ---------------------------------------------------------------------------------------------
// cff.rs:1104 / cff.rs:1111  Range::iter  `first + n_left`   (ids 17, 18)
// ---------------------------------------------------------------------------------------------

#[test]
fn id17_charset_format1_range_iter() {
    // 3 glyphs; charset format 1 with the single range first=0xFFFF nLeft=1
    let cff_data = build_cff(&endchar_glyphs(3), &[], &charset_format1(&[(0xFFFF, 1)]));
    let cff = ReadScope::new(&cff_data).read::<CFF<'_>>().unwrap();
    match &cff.fonts[0].charset {
        Charset::Custom(custom) => {
            let _ = custom.iter().count();
        }
        _ => unreachable!(),
    }
}

#[test]
fn id18_charset_format2_range_iter() {
    let cff_data = build_cff(&endchar_glyphs(3), &[], &charset_format2(&[(0xFFFF, 1)]));
    let cff = ReadScope::new(&cff_data).read::<CFF<'_>>().unwrap();
    match &cff.fonts[0].charset {
        Charset::Custom(custom) => {
            let _ = custom.iter().count();
        }
        _ => unreachable!(),
    }
}

// ---------------------------------------------------------------------------------------------
// cff.rs:1320  `glyph_id += sid - first`   (id 20)
// ---------------------------------------------------------------------------------------------

#[test]
fn id20_sid_to_gid_match_in_oversized_last_range() {
    // 3 glyphs => charset covers 2 glyphs. The reader stops reading ranges once 2 glyphs are
    // covered but does not clamp the last range: {1,0} {1,0xFFFE}. sid 0xFFFF is in range 2:
    // glyph_id = 2 + 0xFFFE.
    let charset = charset_format2(&[(1, 0), (1, 0xFFFE)]);
    let cff_data = build_cff(&endchar_glyphs(3), &[], &charset);
    let _ = sid_to_gid(&cff_data, 0xFFFF);
}

// ---------------------------------------------------------------------------------------------
// cff.rs:1324  `glyph_id += u16::from(n_left) + 1`   (ids 21, 22)
// ---------------------------------------------------------------------------------------------

#[test]
fn id21_sid_to_gid_n_left_plus_one() {
    // nLeft = 0xFFFF, sid not in the range: `u16::from(n_left) + 1` overflows
    let charset = charset_format2(&[(300, 0xFFFF)]);
    let cff_data = build_cff(&endchar_glyphs(3), &[], &charset);
    let _ = sid_to_gid(&cff_data, 5);
}

#[test]
fn id22_sid_to_gid_glyph_id_accumulation() {
    // nLeft + 1 = 0xFFFF does not overflow but glyph_id (2) + 0xFFFF does
    let charset = charset_format2(&[(1, 0), (10, 0xFFFE)]);
    let cff_data = build_cff(&endchar_glyphs(3), &[], &charset);
    let _ = sid_to_gid(&cff_data, 5);
}

#[test]
fn id21_via_seac_outline() {
    // Same charset as id21 but reached from the glyph outline API: glyph 0 is
    // `0 0 65 66 endchar` (seac), the accent code is mapped through the standard encoding to a SID
    // and then through the custom charset to a glyph id.
    let charset = charset_format2(&[(300, 0xFFFF)]);
    let mut glyphs = endchar_glyphs(3);
    glyphs[0] = vec![139, 139, 139 + 65, 139 + 66, 14];
    let cff_data = build_cff(&glyphs, &[], &charset);
    let mut cff = ReadScope::new(&cff_data).read::<CFF<'_>>().unwrap();
    let _ = cff.visit(0, &mut NullSink);
}

// ---------------------------------------------------------------------------------------------
// cff/cff2.rs:813  StringTable::get_or_insert `next_sid += 1`   (id 30)
// ---------------------------------------------------------------------------------------------

/// Replace (or add) a table in an sfnt file. Checksums are not maintained.
fn replace_table(font: &[u8], tag: &[u8; 4], new_data: &[u8]) -> Vec<u8> {
    let num_tables = u16::from_be_bytes([font[4], font[5]]) as usize;
    let mut tables: Vec<([u8; 4], Vec<u8>)> = Vec::new();
    for i in 0..num_tables {
        let rec = &font[12 + i * 16..12 + (i + 1) * 16];
        let t = [rec[0], rec[1], rec[2], rec[3]];
        let offset = u32::from_be_bytes([rec[8], rec[9], rec[10], rec[11]]) as usize;
        let length = u32::from_be_bytes([rec[12], rec[13], rec[14], rec[15]]) as usize;
        let data = if &t == tag {
            new_data.to_vec()
        } else {
            font[offset..offset + length].to_vec()
        };
        tables.push((t, data));
    }
    let mut out = font[..12].to_vec();
    let mut offset = 12 + 16 * tables.len();
    for (t, data) in &tables {
        out.extend_from_slice(t);
        out.extend_from_slice(&be32(0)); // checksum
        out.extend_from_slice(&be32(offset as u32));
        out.extend_from_slice(&be32(data.len() as u32));
        offset += (data.len() + 3) & !3;
    }
    for (_, data) in &tables {
        out.extend_from_slice(data);
        while out.len() % 4 != 0 {
            out.push(0);
        }
    }
    out
}

fn build_cff2_many_font_dicts(n_fonts: usize) -> Vec<u8> {
    // Top DICT: CharStrings(17) FDArray(12 36) FDSelect(12 37)
    let top_dict_len = 6 + 7 + 7;
    let header_len = 5;
    let gsubr_index = index(&[], true);
    let char_strings_index = index(&[vec![]], true); // one glyph, empty CharString
    let fd_select = vec![0u8, 0u8]; // format 0, glyph 0 -> font dict 0
                                    // Each Font DICT is `0 0 Private`
    let font_dicts = vec![vec![139u8, 139, 18]; n_fonts];
    let fd_array = index(&font_dicts, true);

    let char_strings_offset = header_len + top_dict_len + gsubr_index.len();
    let fd_select_offset = char_strings_offset + char_strings_index.len();
    let fd_array_offset = fd_select_offset + fd_select.len();

    let mut top_dict = Vec::new();
    top_dict.extend(int5(char_strings_offset as i32));
    top_dict.push(17);
    top_dict.extend(int5(fd_array_offset as i32));
    top_dict.extend_from_slice(&[12, 36]);
    top_dict.extend(int5(fd_select_offset as i32));
    top_dict.extend_from_slice(&[12, 37]);
    assert_eq!(top_dict.len(), top_dict_len);

    let mut out = vec![2u8, 0, 5];
    out.extend_from_slice(&be16(top_dict_len as u16));
    out.extend(top_dict);
    out.extend(gsubr_index);
    out.extend(char_strings_index);
    out.extend(fd_select);
    out.extend(fd_array);
    out
}

#[test]
fn id30_cff2_to_cff_string_table_sid_overflow() {
    let path = concat!(
        env!("CARGO_MANIFEST_DIR"),
        "/tests/fonts/opentype/cff2/SourceSans3.abc.otf"
    );
    let font = std::fs::read(path).unwrap();
    // CFF2 table whose Font DICT INDEX holds 65,300 three byte Font DICTs (~460 KiB table)
    let cff2 = build_cff2_many_font_dicts(65_300);
    let patched = replace_table(&font, b"CFF2", &cff2);
    let otf = ReadScope::new(&patched).read::<OpenTypeFont<'_>>().unwrap();
    let provider = otf.table_provider(0).unwrap();
    let _ = subset(&provider, &[0]);
}

// ---------------------------------------------------------------------------------------------
// cff/charstring.rs:710, 956, 961  `stems_len`   (ids 38, 43, 44)
// ---------------------------------------------------------------------------------------------

fn call_gsubr(index: u8) -> [u8; 2] {
    // bias is 107 for < 1240 subrs; operand = index - 107, encoded as one byte (value + 139)
    [index + 32, 29]
}

/// Global subrs 0..=6: subr k calls subr k+1 sixteen times, subr 6 is `0 x32 hstem` (16 stems).
/// Global subrs 7..=13: subr 7+k calls subr k+1 fifteen times and subr 7+k+1 once, subr 13 is
/// `0 x30 hstem` (15 stems). Subr 0 declares 2^28 stems, subr 7 declares 2^28 - 1.
fn stem_bomb_subrs() -> Vec<Vec<u8>> {
    let mut subrs = Vec::new();
    for k in 0..6u8 {
        let mut s = Vec::new();
        for _ in 0..16 {
            s.extend_from_slice(&call_gsubr(k + 1));
        }
        s.push(11); // return
        subrs.push(s);
    }
    let mut leaf = vec![139u8; 32];
    leaf.push(1); // hstem
    leaf.push(11);
    subrs.push(leaf);
    for k in 0..6u8 {
        let mut s = Vec::new();
        for _ in 0..15 {
            s.extend_from_slice(&call_gsubr(k + 1));
        }
        s.extend_from_slice(&call_gsubr(7 + k + 1));
        s.push(11);
        subrs.push(s);
    }
    let mut leaf = vec![139u8; 30];
    leaf.push(1);
    leaf.push(11);
    subrs.push(leaf);
    subrs
}

fn run_stem_bomb(glyph0: Vec<u8>) {
    let mut glyphs = endchar_glyphs(1);
    glyphs[0] = glyph0;
    // one glyph: the charset offset is still read, format 0 with zero entries
    let cff_data = build_cff(&glyphs, &stem_bomb_subrs(), &[0u8]);
    let mut cff = ReadScope::new(&cff_data).read::<CFF<'_>>().unwrap();
    let res = cff.visit(0, &mut NullSink);
    // the audit version panicked here ("no overflow") when the overflow did not occur; it must not occur now
    let _ = res;
}

#[test]
#[ignore]
fn id38_stems_len_hstem() {
    // 16 x subr 0 = 2^32 stems: the last hstem overflows `self.stems_len += len as u32 >> 1`
    let mut glyph = Vec::new();
    for _ in 0..16 {
        glyph.extend_from_slice(&call_gsubr(0));
    }
    glyph.push(14);
    run_stem_bomb(glyph);
}

#[test]
#[ignore]
fn id43_stems_len_hintmask_add() {
    // 15 x subr 0 + subr 7 = 2^32 - 1 stems, then `0 0 hintmask` adds one more
    let mut glyph = Vec::new();
    for _ in 0..15 {
        glyph.extend_from_slice(&call_gsubr(0));
    }
    glyph.extend_from_slice(&call_gsubr(7));
    glyph.extend_from_slice(&[139, 139, 19]);
    run_stem_bomb(glyph);
}

#[test]
#[ignore]
fn id44_stems_len_hintmask_round_up() {
    // 2^32 - 1 stems then `hintmask` with an empty stack: `(self.stems_len + 7) >> 3`
    let mut glyph = Vec::new();
    for _ in 0..15 {
        glyph.extend_from_slice(&call_gsubr(0));
    }
    glyph.extend_from_slice(&call_gsubr(7));
    glyph.push(19);
    run_stem_bomb(glyph);
}

// ---------------------------------------------------------------------------------------------
// cff/charstring/argstack.rs:47,54,76,77  (ids 48-51): pub methods of a pub type with pub fields.
// Not reachable from font data (all in-crate callers check the length first). With
// debug-assertions enabled the `debug_assert!` in front of the subtraction fires instead of the
// overflow check, so the tests only expect *a* panic.
// ---------------------------------------------------------------------------------------------





// ---------------------------------------------------------------------------------------------
// layout.rs:3362  Coverage::glyph_coverage_value `start_coverage_index + (glyph - start)` (id 103)
// ---------------------------------------------------------------------------------------------

#[test]
fn id103_coverage_format2_start_coverage_index() {
    // format 2, one range record: start 10, end 20, startCoverageIndex 0xFFFF
    let data = [0u8, 2, 0, 1, 0, 10, 0, 20, 0xFF, 0xFF];
    let coverage = ReadScope::new(&data).read::<Coverage>().unwrap();
    let _ = coverage.glyph_coverage_value(11);
}

// ---------------------------------------------------------------------------------------------
// tables/variable_fonts.rs:563, 571  read_packed_point_numbers `*prev + diff`  (ids 188, 189)
// ---------------------------------------------------------------------------------------------

fn gvar_with_glyph_data(glyph_data: &[u8]) -> Vec<u8> {
    assert!(glyph_data.len() % 2 == 0);
    let mut gvar = Vec::new();
    gvar.extend_from_slice(&be16(1)); // major
    gvar.extend_from_slice(&be16(0)); // minor
    gvar.extend_from_slice(&be16(1)); // axisCount
    gvar.extend_from_slice(&be16(0)); // sharedTupleCount
    gvar.extend_from_slice(&be32(24)); // sharedTuplesOffset
    gvar.extend_from_slice(&be16(1)); // glyphCount
    gvar.extend_from_slice(&be16(0)); // flags: short offsets
    gvar.extend_from_slice(&be32(24)); // glyphVariationDataArrayOffset
    gvar.extend_from_slice(&be16(0));
    gvar.extend_from_slice(&be16((glyph_data.len() / 2) as u16));
    assert_eq!(gvar.len(), 24);
    gvar.extend_from_slice(glyph_data);
    gvar
}

#[test]
fn id188_packed_point_numbers_word_run() {
    // GlyphVariationData: tupleVariationCount = SHARED_POINT_NUMBERS | 0, dataOffset = 4,
    // shared points: count 2, control 0x81 (2 words): 0xFFFF, 0x0001
    let glyph_data = [0x80u8, 0, 0, 4, 2, 0x81, 0xFF, 0xFF, 0x00, 0x01];
    let gvar_data = gvar_with_glyph_data(&glyph_data);
    let gvar = ReadScope::new(&gvar_data).read::<GvarTable<'_>>().unwrap();
    let _ = gvar.glyph_variation_data(0, NumPoints::new(10));
}

#[test]
fn id189_packed_point_numbers_byte_run() {
    // shared points: count 2, control 0x80 (1 word): 0xFFFF, control 0x00 (1 byte): 0x01
    let glyph_data = [0x80u8, 0, 0, 4, 2, 0x80, 0xFF, 0xFF, 0x00, 0x01];
    let gvar_data = gvar_with_glyph_data(&glyph_data);
    let gvar = ReadScope::new(&gvar_data).read::<GvarTable<'_>>().unwrap();
    let _ = gvar.glyph_variation_data(0, NumPoints::new(10));
}

// ---------------------------------------------------------------------------------------------
// tables/variable_fonts.rs:702  `2 * num_deltas`  (id 191): only with a num_points argument
// >= 2^31 passed to the public ReadBinaryDep impl of TupleVariationStore (GvarTable caps it at
// 65539).
// ---------------------------------------------------------------------------------------------

#[test]
fn id191_variation_data_num_deltas_times_two() {
    // SHARED_POINT_NUMBERS | 1 header, dataOffset 8; header: size 0, shared tuple index 0;
    // serialized data: shared point numbers `0` (= all points)
    let data = [0x80u8, 1, 0, 8, 0, 0, 0, 0, 0];
    let scope = ReadScope::new(&data);
    let store = scope
        .read_dep::<TupleVariationStore<'_, Gvar>>((1, 0x8000_0000, scope))
        .unwrap();
    let _ = store.variation_data(0);
}
