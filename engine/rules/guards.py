"""Guard recognition (DESIGN 5B): which blocks are only entered when a fallible call succeeded,
or when a comparison holds."""
from facts import op_local, op_place, callee_is

# wrappers that map the success variant of their argument to the success variant of their result
SUCCESS_PRESERVING = (
    "std::ops::Try::branch", "std::result::Result::<T, E>::ok", "std::option::Option::<T>::ok_or",
    "std::option::Option::<T>::ok_or_else", "std::result::Result::<T, E>::map_err",
    "std::result::Result::<T, E>::map", "std::option::Option::<T>::map",
    "std::convert::From::from", "std::convert::Into::into", "std::result::Result::<T, E>::or",
)


def success_discr(ty):
    """discriminant value of the success variant for Result/Option/ControlFlow types"""
    if ty.startswith("std::result::Result<"):
        return 0
    if ty.startswith("std::option::Option<"):
        return 1
    if ty.startswith("std::ops::ControlFlow<"):
        return 0
    return None


def uses_of_local(body, l):
    """(bb, kind, item) where local l is read as a whole-local operand or as the base of a place"""
    out = []
    for bi, b in enumerate(body.blocks):
        if not body.reachable(bi):
            continue
        for s in b["s"]:
            if s["k"] == "assign":
                rv = s["rv"]
                for key in ("op", "a", "b"):
                    o = rv.get(key)
                    if o and o["k"] in ("copy", "move") and o["p"]["l"] == l:
                        out.append((bi, "stmt", s))
                if rv.get("p") and rv["p"]["l"] == l:
                    out.append((bi, "stmt", s))
                for f in rv.get("fields", []):
                    if f["k"] in ("copy", "move") and f["p"]["l"] == l:
                        out.append((bi, "stmt", s))
        t = b["t"]
        if t["k"] == "call":
            for a in t["args"]:
                if a["k"] in ("copy", "move") and a["p"]["l"] == l:
                    out.append((bi, "call", t))
        elif t["k"] == "switch":
            o = t["discr"]
            if o["k"] in ("copy", "move") and o["p"]["l"] == l:
                out.append((bi, "switch", t))
    return out


def success_blocks(body, local, depth=0):
    """blocks whose entry implies that `local` (a Result/Option/ControlFlow value) is in its
    success variant. Follows success-preserving wrappers and `discriminant` + switch."""
    out = []
    if depth > 6:
        return out
    ty = body.local_ty(local)
    sd = success_discr(ty)
    if sd is None:
        return out
    for bi, kind, item in uses_of_local(body, local):
        if kind == "stmt" and item["rv"]["k"] == "discr" and not item["rv"]["p"]["p"]:
            dl = item["p"]["l"]
            for bj, k2, sw in uses_of_local(body, dl):
                if k2 != "switch":
                    continue
                for val, tgt in sw["arms"]:
                    if val == sd and body.preds(tgt) == [bj]:
                        out.append(tgt)
                # `otherwise` is the success arm when every other variant is listed
                listed = [v for v, _ in sw["arms"]]
                if sd not in listed and len(listed) == 1 and body.preds(sw["otherwise"]) == [bj]:
                    out.append(sw["otherwise"])
        elif kind == "stmt" and item["rv"]["k"] == "use" and not item["p"]["p"] and op_local(item["rv"]["op"]) == local:
            out.extend(success_blocks(body, item["p"]["l"], depth + 1))
        elif kind == "call" and callee_is(item, *SUCCESS_PRESERVING) and not item["dest"]["p"]:
            if len(item["args"]) >= 1 and op_local(item["args"][0]) == local:
                out.extend(success_blocks(body, item["dest"]["l"], depth + 1))
    return out


def unwrapped_value_locals(body, local, depth=0):
    """locals that hold the success payload of `local` (via unwrap/expect/?/Ok(x) pattern)"""
    out = []
    if depth > 6:
        return out
    for bi, kind, item in uses_of_local(body, local):
        if kind == "call" and not item["dest"]["p"] and len(item["args"]) >= 1 and op_local(item["args"][0]) == local:
            if callee_is(item, "::unwrap", "::expect", "::unwrap_or_default"):
                out.append(item["dest"]["l"])
            elif callee_is(item, *SUCCESS_PRESERVING):
                out.extend(unwrapped_value_locals(body, item["dest"]["l"], depth + 1))
        elif kind == "stmt" and item["rv"]["k"] == "use":
            p = op_place(item["rv"]["op"])
            if p and p["l"] == local and not item["p"]["p"]:
                projs = p["p"]
                if not projs:
                    out.extend(unwrapped_value_locals(body, item["p"]["l"], depth + 1))
                elif len(projs) == 2 and isinstance(projs[0], dict) and "d" in projs[0] and isinstance(projs[1], dict) and projs[1].get("f") == 0:
                    if projs[0]["d"] == success_discr(body.local_ty(local)):
                        out.append(item["p"]["l"])
    return out


CMP_FLIP = {"Lt": "Gt", "Gt": "Lt", "Le": "Ge", "Ge": "Le", "Eq": "Eq", "Ne": "Ne"}
CMP_NEG = {"Lt": "Ge", "Gt": "Le", "Le": "Gt", "Ge": "Lt", "Eq": "Ne", "Ne": "Eq"}


def branch_conditions(body, prov):
    """for every switch on a bool produced by a comparison: list of
    (true_block|None, false_block|None, op, a_term, b_term, switch_bb). A block is reported only
    when it is entered exclusively through that edge."""
    out = []
    for bi, b in enumerate(body.blocks):
        t = b["t"]
        if t["k"] != "switch" or not body.reachable(bi):
            continue
        if t.get("dty") != "bool":
            continue
        term = prov.op(t["discr"])
        neg = False
        while term[0] == "un" and term[1] == "Not":
            neg = not neg
            term = term[2]
        if term[0] != "bin" or term[1] not in CMP_FLIP:
            continue
        false_b = None
        true_b = None
        for val, tgt in t["arms"]:
            if val == 0:
                false_b = tgt
        true_b = t["otherwise"]
        if false_b is None:
            continue
        if neg:
            true_b, false_b = false_b, true_b
        tb = true_b if body.preds(true_b) == [bi] else None
        fb = false_b if body.preds(false_b) == [bi] else None
        out.append((tb, fb, term[1], term[2], term[3], bi))
    return out


def bool_call_conditions(body, prov):
    """for every switch on a bool returned by a call: (true_block|None, false_block|None, call term, switch_bb)"""
    out = []
    for bi, b in enumerate(body.blocks):
        t = b["t"]
        if t["k"] != "switch" or not body.reachable(bi) or t.get("dty") != "bool":
            continue
        term = prov.op(t["discr"])
        neg = False
        while term[0] == "un" and term[1] == "Not":
            neg = not neg
            term = term[2]
        if term[0] != "call":
            continue
        false_b = None
        for val, tgt in t["arms"]:
            if val == 0:
                false_b = tgt
        true_b = t["otherwise"]
        if false_b is None:
            continue
        if neg:
            true_b, false_b = false_b, true_b
        tb = true_b if body.preds(true_b) == [bi] else None
        fb = false_b if body.preds(false_b) == [bi] else None
        out.append((tb, fb, term, bi))
    return out
