"""C12 — instancing: a successful instance is a static font (no variation tables), written by
the single sfnt producer; bounded recursion of the bounding-box pass."""
import re
from fractions import Fraction

import guards
import recursion
import sym
import tableread
from facts import callee_is, place_fields

LEVEL = "other"
EXPLANATION = (
    "Decides the clause 'a successful instance is a static font': in variations::instance every FontBuilder::add_table call "
    "either names a constant tag that is not a variation table tag, or takes its tag from an iterator filtered by a closure that "
    "rejects every tag for which is_var_table(tag) holds (R12-T); is_var_table accepts exactly the tags ending in 'var'/'VAR' — all "
    "of fvar avar gvar cvar HVAR VVAR MVAR (R12-P, the predicate read from MIR); in the CFF2 branch the variation store is "
    "cleared (vstore = None) after instance_char_strings and before the CFF2 value is re-wrapped for writing (R12-V); the returned "
    "bytes come from FontBuilderWithHead::data (R12-D). Plus bounded recursion of calculate_bounding_box (C01-a). The per-axis region scalar, "
    "read as a decision list and evaluated exactly on a grid, equals the specification's tent function, also over the implied region of a "
    "tuple without intermediate coordinates (R12-TENT)."
)
NOT_DECIDED = ("the numeric clauses other than the region scalar: delta accumulation, IUP interpolation, phantom points, HVAR/MVAR application, "
               "rounding, equality with the default master at default coordinates.")

VAR_TAGS = ["fvar", "avar", "gvar", "cvar", "HVAR", "VVAR", "MVAR"]


def tagv(s):
    b = s.encode("latin-1")
    return (b[0] << 24) | (b[1] << 16) | (b[2] << 8) | b[3]


def r12_p(run, fx):
    run.rule("R12-P", "is_var_table(tag) == (tag & '\\0var' == '\\0var') || (tag & '\\0VAR' == '\\0VAR'), so all seven variation table tags are rejected")
    b = fx.body("variations::is_var_table")
    if b is None:
        run.anchor_missing("R12-P", "variations::is_var_table")
        return False
    site = "%s:%s" % (b.file, b.line)
    prov = sym.Prov(b)
    masks = []
    for bi, blk in enumerate(b.blocks):
        for s in blk["s"]:
            if s["k"] == "assign" and s["rv"]["k"] == "bin" and s["rv"]["bop"] == "Eq":
                t = sym.strip(prov.rvalue(s["rv"]))
                a, c = sym.strip(t[2]), sym.strip(t[3])
                if a[0] == "bin" and a[1] == "BitAnd":
                    x, m = sym.strip(a[2]), sym.strip(a[3])
                    mv = cval(fx, m)
                    cv = cval(fx, c)
                    if x[0] == "arg" and mv is not None and mv == cv:
                        masks.append(mv)
    want = {tagv("\0var"), tagv("\0VAR")}
    # the disjunction: the true edge of the first comparison assigns true, otherwise the second comparison is the result
    returns_true_on_first = any(s["k"] == "assign" and s["p"]["l"] == 0 and s["rv"]["k"] == "use" and s["rv"]["op"].get("val") == 1
                                for blk in b.blocks for s in blk["s"])
    n_false_consts = sum(1 for blk in b.blocks for s in blk["s"] if s["k"] == "assign" and s["p"]["l"] == 0 and s["rv"]["k"] == "use" and s["rv"]["op"].get("val") == 0)
    if set(masks) == want and returns_true_on_first and n_false_consts == 0:
        # every variation tag satisfies one of the masks
        bad = [t for t in VAR_TAGS if not any((tagv(t) & m) == m for m in masks)]
        if bad:
            run.fail("R12-P", "is_var_table:tags", "variation tags %s are not matched by the predicate" % bad, site)
            return False
        run.ok("R12-P", "is_var_table: masks %s; matches %s" % (sorted(hex(m) for m in masks), VAR_TAGS))
        return True
    run.fail("R12-P", "is_var_table", "predicate is not (tag & '\\0var' == '\\0var') || (tag & '\\0VAR' == '\\0VAR'): masks %s" % sorted(hex(m) for m in masks), site)
    return False


def cval(fx, t):
    if t[0] == "c":
        return t[1]
    if t[0] == "uneval":
        c = fx.const(t[1])
        return c.get("val") if c else None
    return None


def closure_rejects_var(fx, cb):
    """closure(tag) -> bool is false whenever is_var_table(tag) is true"""
    prov = sym.Prov(cb)
    for bi, t in cb.calls():
        if callee_is(t, "variations::is_var_table") and not t["dest"]["p"]:
            r = t["dest"]["l"]
            for bj, kind, sw in guards.uses_of_local(cb, r):
                if kind != "switch":
                    continue
                tb = sw["otherwise"]
                # everything reachable from the true edge may only assign `false` to the result
                ok = True
                for n in cb.reach_from(tb):
                    for s in cb.stmts(n):
                        if s["k"] == "assign" and s["p"]["l"] == 0 and not s["p"]["p"]:
                            if not (s["rv"]["k"] == "use" and s["rv"]["op"].get("k") == "const" and s["rv"]["op"].get("val") == 0):
                                ok = False
                    if cb.term(n)["k"] == "call" and cb.term(n)["dest"]["l"] == 0:
                        ok = False
                # and the is_var_table call must be on every path to a non-false result: its block dominates every other _0 assignment
                for n in range(len(cb.blocks)):
                    if not cb.reachable(n):
                        continue
                    for s in cb.stmts(n):
                        if s["k"] == "assign" and s["p"]["l"] == 0 and not s["p"]["p"]:
                            isfalse = s["rv"]["k"] == "use" and s["rv"]["op"].get("val") == 0
                            if not isfalse and not cb.dominates(bi, n):
                                ok = False
                return ok
    return False


def r12_t(run, fx, floors):
    run.rule("R12-T", "every add_table in variations::instance has a constant non-variation tag, or a tag drawn from an iterator filtered by a closure that rejects is_var_table tags")
    b = fx.body("variations::instance")
    if b is None:
        run.anchor_missing("R12-T", "variations::instance")
        return
    prov = sym.Prov(b)
    n = 0
    var_vals = {tagv(t) for t in VAR_TAGS}
    for bi, t in b.calls():
        if not callee_is(t, "FontBuilder::add_table"):
            continue
        n += 1
        tag = sym.strip(prov.op(t["args"][1]))
        v = cval(fx, tag)
        if v is not None:
            if v in var_vals or (v & 0xFFFFFF) in (tagv("\0var"), tagv("\0VAR")):
                run.fail("R12-T", "add_table:%s" % tableread.tag_str(v), "instance adds the variation table %r to the output" % tableread.tag_str(v), b.loc(t))
            else:
                run.ok("R12-T", "add_table(%r) constant, not a variation table" % tableread.tag_str(v))
            continue
        # non-constant: must come from Filter<.., closure> whose closure rejects var tables
        ok = False
        why = "tag does not come from a filtered iterator"
        for sub in sym.walk(tag):
            if sub[0] == "call" and (sub[4] or "").endswith("Iterator::filter"):
                for a in sub[2]:
                    a = sym.strip(a)
                    if a[0] == "agg" and a[1] == "closure":
                        pass
                # find the closure aggregate statement feeding this filter call
                fb = sub[3]
                cl = None
                for blk_i in b.rpo():
                    for s in b.stmts(blk_i):
                        if s["k"] == "assign" and s["rv"]["k"] == "agg" and s["rv"].get("agg") == "closure":
                            tt = b.term(fb)
                            if any(a["k"] in ("move", "copy") and a["p"]["l"] == s["p"]["l"] for a in tt["args"]):
                                cl = fx.by_dp.get(s["rv"]["closure_dp"])
                if cl is None:
                    why = "filter closure not found"
                elif closure_rejects_var(fx, cl):
                    ok = True
                else:
                    why = "the filter closure does not reject every tag for which is_var_table(tag) holds"
        if not ok:
            # the same filter written as a guard: `if .. || is_var_table(tag) || .. { continue }` - the call is only reached where is_var_table(tag) was false
            import guards
            ntag = sym.norm(tag)
            for tb_, fb_, call, sw in guards.bool_call_conditions(b, prov):
                if fb_ is not None and b.dominates(fb_, bi) and (call[4] or call[1] or "").endswith("is_var_table") and call[2]:
                    a0 = sym.strip(call[2][0])
                    while a0[0] in ("deref", "ref"):
                        a0 = sym.strip(a0[1])
                    if sym.norm(a0) == ntag:
                        ok = True
        if ok:
            run.ok("R12-T", "add_table(tag) with tag from tags.into_iter().filter(|tag| .. && !is_var_table(*tag) ..)")
        else:
            run.fail("R12-T", "add_table:dynamic", "add_table with a non-constant tag: %s" % why, b.loc(t))
    if floors:
        run.floor("R12-T", "add_table calls in instance", n, 9)


def r12_v(run, fx):
    run.rule("R12-V", "in the CFF2 branch of instance, vstore = None follows instance_char_strings and dominates every re-wrapping of the CFF2 value")
    b = fx.body("variations::instance")
    if b is None:
        return
    ics = [bi for bi, t in b.calls() if callee_is(t, "CFF2::<'a>::instance_char_strings")]
    if not ics:
        run.anchor_missing("R12-V", "call of CFF2::instance_char_strings in instance")
        return
    clear_blocks = []
    for bi, blk in enumerate(b.blocks):
        for s in blk["s"]:
            if s["k"] == "assign" and "vstore" in place_fields(s["p"]):
                v = sym.strip(sym.Prov(b).rvalue(s["rv"]))
                if v[0] == "agg" and v[2] == "None":
                    clear_blocks.append(bi)
    wraps = []
    for bi, blk in enumerate(b.blocks):
        if not b.reachable(bi):
            continue
        for s in blk["s"]:
            if s["k"] == "assign" and s["rv"]["k"] == "agg" and s["rv"].get("adt", "").endswith("GlyphData") and s["rv"].get("vname") == "Cff2":
                if any(b.dominates(i, bi) for i in ics):
                    wraps.append((bi, s))
    if not wraps:
        run.anchor_missing("R12-V", "GlyphData::Cff2 re-wrapping after instance_char_strings")
        return
    for bi, s in wraps:
        if any(b.dominates(c, bi) and any(b.dominates(i, c) for i in ics) for c in clear_blocks):
            run.ok("R12-V", "GlyphData::Cff2(..) at %s dominated by vstore = None" % b.loc(s))
        else:
            run.fail("R12-V", "vstore-not-cleared", "the instanced CFF2 table is re-wrapped for writing without clearing its variation store", b.loc(s))


def r12_d(run, fx):
    run.rule("R12-D", "the bytes returned by instance come from FontBuilderWithHead::data")
    b = fx.body("variations::instance")
    if b is None:
        return
    prov = sym.Prov(b)
    ok = False
    others = []
    for (bb, idx, kind, item) in b.defs().get(0, []):
        if kind == "call":
            nm = item["callee"].get("path") or ""
            if nm.endswith("FromResidual::from_residual"):
                continue
            t = ("call", nm, tuple(prov.op(a) for a in item["args"]), bb, nm, None)
            if any(sub[0] == "call" and (sub[1] or "").endswith("FontBuilderWithHead::data") for sub in sym.walk(t)):
                ok = True
            else:
                others.append(nm)
        elif kind == "assign":
            rv = item["rv"]
            if rv["k"] == "agg" and rv.get("vname") == "Err":
                continue
            # `match builder.data() { Ok(data) => Ok((data, instance)), .. }`
            if rv["k"] == "agg" and rv.get("vname") == "Ok" and any(
                    sub[0] == "call" and (sub[1] or "").endswith("FontBuilderWithHead::data") for f in rv["fields"] for sub in sym.walk(prov.op(f))):
                ok = True
                continue
            others.append("assignment at %s" % b.loc(item))
    if ok and not others:
        run.ok("R12-D", "_0 = data().map(..).map_err(..); all other definitions of the result are error returns")
    else:
        run.fail("R12-D", "instance-result", "instance has a success result that does not come from FontBuilderWithHead::data: %s" % others, "%s:%s" % (b.file, b.line))


def r12_s(run, fx):
    rule = "R12-S"
    run.rule(rule, "variation tables that declare a record size are read with that size as the array stride: MVAR valueRecordSize, fvar axisSize "
                   "(read_array_stride whose stride operand derives from the size field read from the table)")
    for path, what in (("<tables::variable_fonts::mvar::MvarTable<'_> as binary::read::ReadBinary>::read", "valueRecordSize"),
                       ("<tables::variable_fonts::fvar::FvarTable<'b> as binary::read::ReadBinary>::read", "axisSize")):
        b = fx.body(path)
        if b is None:
            run.anchor_missing(rule, path)
            continue
        prov = sym.Prov(b)
        sites = [(bi, t) for bi, t in b.calls() if callee_is(t, "ReadCtxt::<'a>::read_array_stride")]
        if not sites:
            run.fail(rule, "stride:%s:none" % what, "%s no longer reads its records with read_array_stride: the declared %s is ignored" % (path, what), "%s:%s" % (b.file, b.line))
            continue
        for bi, t in sites:
            st = prov.op(t["args"][2])
            from_read = any(x[0] == "call" and (x[1] or "").endswith("read_u16be") for x in sym.walk(st))
            if from_read:
                run.ok(rule, "%s: stride is the %s read from the table" % (path.split("::")[-3], what))
            else:
                run.fail(rule, "stride:%s" % what, "the stride of the record array in %s is %s, not the %s read from the table" % (path, sym.show(sym.strip(st))[:60], what), b.loc(t))


def _alloc_of(t):
    t = sym.strip(t)
    for _ in range(12):
        if t[0] in ("ref", "deref"):
            t = sym.strip(t[1])
            continue
        if t[0] == "call" and (t[4] or t[1] or "").endswith(("Deref::deref", "DerefMut::deref_mut", "::as_mut_slice", "::as_slice", "::as_mut")) and t[2]:
            t = sym.strip(t[2][0])
            continue
        break
    if t[0] == "call" and (t[4] or t[1] or "").endswith("vec::from_elem"):
        return t[3]
    return None


def _in_cycle(b, bb):
    seen, todo = set(), list(b.succs(bb))
    while todo:
        x = todo.pop()
        if x == bb:
            return True
        if x in seen:
            continue
        seen.add(x)
        todo.extend(b.succs(x))
    return False


def r12_f(run, fx, floors=True):
    rule = "R12-F"
    run.rule(rule, "a scratch buffer that is allocated before a loop, partially overwritten inside it (get_mut / index_mut / handed to a callee "
                   "as &mut) and read as a whole in the same iteration (iter / to_vec / as_slice) is reset (fill / clear) inside the loop before "
                   "those uses: the gvar per-region delta buffer must not carry deltas of the previous region into points the next region "
                   "leaves untouched")
    n = 0
    for b in fx.bodies:
        if b.exp:
            continue
        if not any((t["callee"].get("path") or "").endswith("vec::from_elem") for _, t in b.calls()):
            continue
        prov = sym.Prov(b)
        uses = {}
        for bi, t in b.calls():
            if not t["args"] or not _in_cycle(b, bi):
                continue
            a = _alloc_of(prov.op(t["args"][0]))
            if a is None or _in_cycle(b, a):
                continue
            last = (t["callee"].get("path") or "").split("::")[-1]
            u = uses.setdefault(a, {"w": [], "r": [], "fill": []})
            if last in ("fill", "clear"):
                u["fill"].append(bi)
            elif last in ("get_mut", "index_mut", "swap", "copy_from_slice", "clone_from_slice"):
                u["w"].append(bi)
            elif last in ("iter", "to_vec", "as_slice", "into_iter"):
                u["r"].append(bi)
            elif last in ("deref", "deref_mut", "len", "index", "get", "iter_mut", "push"):
                pass
            else:
                ty = (t["args"][0].get("p") or {}).get("ty") or ""
                if "&mut" in ty:
                    u["w"].append(bi)
        for a, u in sorted(uses.items()):
            if not (u["w"] and u["r"]):
                continue
            n += 1
            missing = [x for x in u["w"] + u["r"] if not any(b.dominates(f, x) for f in u["fill"])]
            if not missing:
                run.ok(rule, "%s: the buffer allocated at bb%d is reset inside the loop before it is written and read" % (b.path, a))
            else:
                run.fail(rule, "scratch:%s" % b.root, "%s: a buffer allocated before the loop is partially overwritten and then read as a whole in "
                         "each iteration without being reset inside the loop: values of the previous iteration leak into the entries this "
                         "iteration does not write" % b.path, b.loc(b.term(missing[0])))
    if floors:
        run.floor(rule, "per-iteration scratch buffers", n, 1)


def r12_xy(run, fx):
    rule = "R12-XY"
    run.rule(rule, "gvar tuple variation data: the X and Y deltas are one packed stream of 2*n deltas (a run may span the X/Y boundary, OpenType "
                   "gvar 'packed deltas'); the reader makes exactly one packed_deltas::read call for them with twice the point count and splits "
                   "the result")
    bs = [b for b in fx.bodies if b.kind != "Closure" and "TupleVariationHeader" in b.path and "Gvar" in b.path and b.root.endswith("::variation_data")]
    if not bs:
        return run.anchor_missing(rule, "TupleVariationHeader<Gvar>::variation_data")
    for b in bs[:1]:
        prov = sym.Prov(b)
        reads = [(bi, t) for bi, t in b.calls() if (t["callee"].get("path") or "").endswith("packed_deltas::read")]
        doubled = False
        for bi, t in reads:
            cnt = prov.op(t["args"][1])
            for x in sym.walk(cnt):
                if x[0] == "call" and (x[4] or x[1] or "").endswith(("::checked_mul", "::saturating_mul")) and any(sym.strip(a)[0] == "c" and sym.strip(a)[1] == 2 for a in x[2]):
                    doubled = True
                if x[0] == "bin" and x[1].startswith("Mul") and any(sym.strip(a)[0] == "c" and sym.strip(a)[1] == 2 for a in (x[2], x[3])):
                    doubled = True
        split = any((t["callee"].get("path") or "").endswith(("::split_off", "::split_at", "::split_at_mut")) for _, t in b.calls())
        if len(reads) == 1 and doubled and split:
            run.ok(rule, "variation_data: one packed_deltas::read of 2*n deltas, then split")
        else:
            run.fail(rule, "gvar-xy-stream", "variation_data reads the glyph deltas with %d packed_deltas::read call(s)%s: a delta run that spans the X/Y "
                     "boundary is cut, the Y deltas are lost or shifted" % (len(reads), "" if doubled else " none of which asks for 2*n deltas"), "%s:%s" % (b.file, b.line))


# Record layouts of the variation tables as the OpenType specification gives them: (width in bytes, struct field the value must end up in | None).
# Only the fixed prefix that the reader consumes before its first data-dependent branch is compared.
VAR_LAYOUTS = {
    "<tables::variable_fonts::hvar::HvarTable<'_> as binary::read::ReadBinary>::read": (
        "HVAR header", [(2, "major_version"), (2, "minor_version"), (4, "item_variation_store"), (4, "advance_width_mapping"), (4, "lsb_mapping"), (4, "rsb_mapping")]),
    "<tables::variable_fonts::ItemVariationStore<'_> as binary::read::ReadBinary>::read": (
        "ItemVariationStore header", [(2, None), (4, "variation_region_list"), (2, "item_variation_data")]),
    "<tables::variable_fonts::ItemVariationData<'_> as binary::read::ReadBinary>::read": (
        "ItemVariationData header", [(2, "item_count"), (2, "word_delta_count"), (2, "region_index_count")]),
    "<tables::variable_fonts::VariationRegionList<'_> as binary::read::ReadBinary>::read": (
        "VariationRegionList header", [(2, None), (2, None)]),
    "<tables::variable_fonts::fvar::FvarTable<'b> as binary::read::ReadBinary>::read": (
        "fvar header", [(2, "major_version"), (2, "minor_version"), (2, None), (2, None), (2, None), (2, None), (2, "instance_count"), (2, "instance_size")]),
    "<tables::variable_fonts::fvar::InstanceRecord<'_> as binary::read::ReadBinaryDep>::read_dep": (
        "fvar InstanceRecord", [(2, "subfamily_name_id"), (2, "flags")]),
    "<tables::variable_fonts::gvar::GvarTable<'_> as binary::read::ReadBinary>::read": (
        "gvar header", [(2, None), (2, None), (2, None), (2, None), (4, None), (2, None), (2, None), (4, None)]),
    "<tables::variable_fonts::mvar::MvarTable<'_> as binary::read::ReadBinary>::read": (
        "MVAR header", [(2, None), (2, None), (2, None), (2, None), (2, None), (2, None)]),
    "<tables::variable_fonts::avar::AvarTable<'_> as binary::read::ReadBinary>::read": (
        "avar header", [(2, None), (2, None), (2, None), (2, None)]),
    "<tables::variable_fonts::stat::StatTable<'b> as binary::read::ReadBinary>::read": (
        "STAT header", [(2, None), (2, None), (2, None), (2, None), (4, None)]),
    "<tables::variable_fonts::cvar::CvarTable<'_> as binary::read::ReadBinaryDep>::read_dep": (
        "cvar header", [(2, "major_version"), (2, "minor_version")]),
}


def r12_l(run, fx, floors):
    import layout
    rule = "R12-L"
    run.rule(rule, "the readers of the variation tables consume the records the OpenType specification lays out: for HVAR, ItemVariationStore, "
                   "ItemVariationData, VariationRegionList, fvar (header, InstanceRecord), gvar, MVAR, avar, STAT and cvar the sequence of fixed-width "
                   "reads before the first data-dependent branch has the specified widths, and where a value is kept in a struct field it is the "
                   "field of that name (an offset read fourth and stored as the third mapping selects another table)")
    n = 0
    for path, (what, spec) in sorted(VAR_LAYOUTS.items()):
        b = fx.body(path)
        if b is None:
            if floors:
                run.anchor_missing(rule, path)
            continue
        items, why = layout.reader_items(fx, b, through_checks=True)
        items = [it for it in items if it.kind in ("prim", "type")]
        n += 1
        probs = []
        if len(items) < len(spec):
            probs.append("only %d fixed-width reads before %s, the specification has %d" % (len(items), why, len(spec)))
        for k, ((w, fld), it) in enumerate(zip(spec, items)):
            if it.width != w:
                probs.append("item %d is %s bytes wide, the specification says %d" % (k, it.width, w))
            elif fld and it.field and it.field != fld:
                probs.append("item %d (%d bytes) ends up in `%s`, the specification's item %d is `%s`" % (k, w, it.field, k, fld))
        if probs:
            run.fail(rule, "layout:%s" % what, "%s (%s): %s" % (what, path, "; ".join(probs)), "%s:%s" % (b.file, b.line))
        else:
            run.ok(rule, "%s: %s" % (what, " | ".join(it.show() for it in items[:len(spec)])))
    if floors and n < len(VAR_LAYOUTS):
        run.anchor_missing(rule, "%d variation table readers (found %d)" % (len(VAR_LAYOUTS), n))


# MVAR value tags (OpenType MVAR, "Value tags") -> the word the name of the varied field must contain
MVAR_TAGS = {
    "hasc": "typoascender", "hdsc": "typodescender", "hlgp": "typolinegap", "hcla": "winascent", "hcld": "windescent",
    "vasc": "ascender", "vdsc": "descender", "vlgp": "linegap", "hcrs": "caretsloperise", "hcrn": "caretsloperun", "hcof": "caretoffset",
    "vcrs": "caretsloperise", "vcrn": "caretsloperun", "vcof": "caretoffset", "xhgt": "xheight", "cpht": "capheight",
    "sbxs": "subscriptxsize", "sbys": "subscriptysize", "sbxo": "subscriptxoffset", "sbyo": "subscriptyoffset",
    "spxs": "superscriptxsize", "spys": "superscriptysize", "spxo": "superscriptxoffset", "spyo": "superscriptyoffset",
    "strs": "strikeoutsize", "stro": "strikeoutposition", "unds": "underlinethickness", "undo": "underlineposition",
}
MVAR_CONTAINERS = ("value_tag", "header", "version0", "version1", "version2to4", "version5")


def r12_m(run, fx):
    rule = "R12-M"
    run.rule(rule, "MVAR: each value tag varies the field the specification assigns to it (hasc -> OS/2.sTypoAscender ... spyo -> OS/2.ySuperscriptYOffset, "
                   "undo -> post.underlinePosition): in the arm of process_mvar for a tag, the field that is written and the field its old value is "
                   "read from both carry the tag's meaning in their name")
    b = fx.body("variations::process_mvar")
    if b is None:
        return run.anchor_missing(rule, "variations::process_mvar")
    prov = sym.Prov(b)
    sws = [(bi, b.term(bi)) for bi in range(len(b.blocks)) if b.reachable(bi) and b.term(bi)["k"] == "switch" and b.term(bi).get("dty") == "u32" and len(b.term(bi)["arms"]) >= 10]
    if not sws:
        return run.anchor_missing(rule, "switch on the value tag in process_mvar")
    seen = set()
    for bi, t in sws:
        for val, tgt in t["arms"]:
            try:
                tagname = val.to_bytes(4, "big").decode("latin1")
            except (OverflowError, AttributeError):
                continue
            kw = MVAR_TAGS.get(tagname)
            if kw is None:
                continue
            seen.add(tagname)
            names = set()
            for i in range(len(b.blocks)):
                if not (b.reachable(i) and b.dominates(tgt, i)):
                    continue
                for st in b.stmts(i):
                    if st["k"] == "assign" and st["p"]["p"]:
                        fs = [e.get("n") for e in st["p"]["p"] if isinstance(e, dict) and e.get("n")]
                        if fs:
                            names.add(fs[-1])
                            for x in sym.walk(prov.rvalue(st["rv"])):
                                if x[0] == "field" and isinstance(x[2], str) and not x[2].isdigit():
                                    names.add(x[2])
            names -= set(MVAR_CONTAINERS)
            wrong = sorted(n_ for n_ in names if kw not in n_.replace("_", "").lower())
            if not names:
                run.fail(rule, "mvar:%s" % tagname, "the arm of process_mvar for '%s' varies nothing" % tagname, b.loc(t))
            elif wrong:
                run.fail(rule, "mvar:%s" % tagname, "the arm of process_mvar for '%s' touches %s; the specification assigns this tag to the %s field" % (tagname, wrong, kw), b.loc(t))
            else:
                run.ok(rule, "'%s' varies %s" % (tagname, sorted(names)))
    missing = sorted(set(MVAR_TAGS) - seen)
    if missing:
        run.fail(rule, "mvar:missing", "process_mvar has no arm for the value tags %s" % missing, "%s:%s" % (b.file, b.line))


# ---- R12-TENT: the per-axis region scalar ----------------------------------------------------------------------------------------
def _tent_spec(instance, start, peak, end):
    """OpenType Font Variations overview, "Algorithm for interpolation of instance values", per-axis scalar of a well-formed region"""
    if peak == 0:
        return Fraction(1)
    if instance < start or instance > end:
        return Fraction(0)
    if instance == peak:
        return Fraction(1)
    if instance < peak:
        return (instance - start) / (peak - start)
    return (end - instance) / (end - peak)


def _tent_valid(instance, start, peak, end):
    # the regions the specification calls well formed: start <= peak <= end, and not straddling zero with a non-zero peak
    return start <= peak <= end and not (start < 0 and end > 0 and peak != 0)


def _implied_spec(instance, peak):
    # a tuple variation header without an intermediate region: the region runs from zero to the peak
    return _tent_spec(instance, min(peak, Fraction(0)), peak, max(peak, Fraction(0)))


def r12_tent(run, fx, floors=True):
    import fnread
    import pathwalk as pw
    rule = "R12-TENT"
    run.rule(rule, "per-axis scalar of a variation region (item variation stores, gvar/cvar tuples, CFF2 blend): every scalar function of "
                   "tables::variable_fonts (calculate_scalar today), read as a decision list over its parameters - every path's comparisons and its "
                   "result formula, evaluated in exact rational arithmetic - equals the specification's tent function for every assignment of a grid "
                   "of nine values per parameter (-1 .. 1 in quarters; all orderings and ties, and zero) restricted to well-formed regions: 1 when "
                   "peak is 0, 0 outside start..=end, 1 at the peak, (instance - start) / (peak - start) below it, (end - instance) / (end - peak) "
                   "above it. A function of (instance, peak) alone is compared with the tent over the implied region min(peak, 0) ..= max(peak, 0). "
                   "Implied regions: where determine_applicable builds the region of a header without intermediate coordinates from the sign of the "
                   "peak, the start pushed is min(peak, 0) and the end pushed is max(peak, 0) on every arm")
    grid = [Fraction(k, 4) for k in range(-4, 5)]
    n = 0
    implied = 0
    for b in fx.bodies:
        if b.kind == "Closure" or not re.search(r"variable_fonts::calculate_\w*scalar\w*$", b.path):
            continue
        params = [b.local_name(i) for i in range(1, b.arg_count + 1)]
        short = b.path.split("::")[-1]
        names = sorted(p or "" for p in params)
        if names == ["end", "instance", "peak", "start"]:
            spec, valid, what = _tent_spec, _tent_valid, "tent function"
        elif names == ["instance", "peak"]:
            spec, valid, what = _implied_spec, None, "tent function over the implied region"
            implied += 1
        else:
            run.notes.append("%s: %s takes %s - not read as a region scalar" % (rule, b.path, params))
            continue
        n += 1
        try:
            cnt, bad = fnread.compare(b, params, grid, spec, valid)
        except fnread.Undecided as e:
            if e.helper:
                run.notes.append("%s: %s hands part of the decision to a helper (%s): not decided" % (rule, b.path, e))
                continue
            run.fail(rule, "tent-shape:%s" % short, "%s is no longer a decision list over its parameters that this rule can read (%s): the region scalar is "
                     "not decided" % (b.path, e), "%s:%s" % (b.file, b.line))
            continue
        if bad:
            a, got, want = bad[0]
            run.fail(rule, "tent:%s" % short, "%s differs from the specification's region scalar (%s), e.g. for %s it yields %s, the specification %s" % (
                b.path, what, " ".join("%s=%s" % (k, a[k]) for k in params), got, want), "%s:%s" % (b.file, b.line))
        else:
            run.ok(rule, "%s equals the specification's %s on %d assignments" % (b.path, what, cnt))
    # implied regions built from the sign of the peak
    for b in fx.bodies:
        if "determine_applicable" not in b.path:
            continue
        for bi in range(len(b.blocks)):
            t = b.term(bi)
            if not (b.reachable(bi) and t["k"] == "switch" and t.get("dty") in ("i16", "i32", "i8", "isize") and len(t["arms"]) >= 2):
                continue
            prov = sym.Prov(b)
            d = sym.strip(prov.op(t["discr"]))
            by_cmp = False
            if d[0] == "discr":
                # match x.cmp(&0) { Less / Equal / Greater }
                inner = d[1]
                while inner[0] in ("ref", "deref"):
                    inner = inner[1]
                z = sym.strip(inner[2][1]) if inner[0] == "call" and str(inner[1]).endswith("::cmp") and len(inner[2]) == 2 else None
                while z is not None and z[0] in ("ref", "deref"):
                    z = sym.strip(z[1])
                if z is None or not (z[0] == "c" and z[1] == 0 or (z[0] == "promoted" and "const 0_" in " ".join(z[1]))):
                    continue
                by_cmp = True
                bits_override = 8
            elif not (d[0] == "call" and str(d[1]).endswith("::signum")):
                continue
            import loops
            hdrs = [lp[0] for lp in loops.natural_loops(b) if bi in lp[1]]
            w = pw.Walk(b, None, hdrs, start=bi)
            if w.dropped or not w.paths:
                run.notes.append("%s: implied region in %s not decided (%s)" % (rule, b.path, "; ".join(w.dropped) or "no path"))
                continue
            bits = 8 if by_cmp else {"i16": 16, "i32": 32, "i8": 8}.get(t["dty"], 8)
            problems = []
            decided = 0

            def resolve(name, b=b, prov=prov):
                # a local assigned before the switch (`let zero = F2Dot14::from(0)`): its single definition
                for l in range(b.arg_count + 1, len(b.locals)):
                    if b.local_name(l) == name:
                        tm = sym.strip(prov.local(l))
                        return None if tm[0] == "local" else tm
                return None
            for conds, env, _end, _kind in w.paths:
                # the walk starts at the switch on the sign: its arm is the first condition of the path
                v = conds[0][1] if conds else None
                signed = lambda u: u - (1 << bits) if u >= (1 << (bits - 1)) else u
                sgn = signed(v) if isinstance(v, int) else None
                if isinstance(v, tuple) and v and v[0] == "not":
                    rest = {-1, 0, 1} - {signed(u) for u in v[1] if isinstance(u, int)}
                    sgn = rest.pop() if len(rest) == 1 else None       # the catch-all arm of a match that names the two other signs
                if sgn not in (-1, 0, 1):
                    continue
                pushes = {}
                for _bb, name, args, _p in env.get(pw.Walk.CALLS, ()):
                    if name.endswith("::push") and len(args) == 2:
                        tgt = sym.show(args[0])
                        side = "start" if "start" in tgt else "end" if "end" in tgt else None
                        if side:
                            pushes.setdefault(side, []).append(args[1])
                if sorted(pushes) != ["end", "start"] or any(len(v) != 1 for v in pushes.values()):
                    continue
                decided += 1
                for pk in ([Fraction(-1), Fraction(-1, 4)] if sgn < 0 else [Fraction(1, 4), Fraction(1)] if sgn > 0 else [Fraction(0)]):
                    ev = fnread.GridEval({"peak": pk}, resolve=resolve)
                    try:
                        st, en = ev.ev(pushes["start"][0]), ev.ev(pushes["end"][0])
                    except (fnread.Undecided, fnread.DivZero) as e:
                        decided -= 1
                        break
                    if (st, en) != (min(pk, 0), max(pk, 0)):
                        problems.append("for a peak of %s the implied region is %s ..= %s; the specification's is %s ..= %s" % (pk, st, en, min(pk, 0), max(pk, 0)))
                        break
            if problems:
                run.fail(rule, "implied-region", "%s builds the region of a tuple without intermediate coordinates wrongly: %s" % (b.path, "; ".join(problems[:2])), b.loc(t))
                implied += 1
            elif decided >= 3:
                run.ok(rule, "%s: implied region = min(peak, 0) ..= max(peak, 0) on the three arms of the sign of the peak" % b.path)
                implied += 1
            else:
                run.notes.append("%s: implied region in %s not decided (%d of 3 arms read)" % (rule, b.path, decided))
    if floors:
        run.floor(rule, "region scalar functions", n, 1)
        run.floor(rule, "constructions of the implied region of a tuple without intermediate coordinates (sign table or a scalar function of instance and peak)", implied, 1)


# ---- R12-PDO: the fonts' Private DICTs and local subroutines stay as they are while charstrings are instanced --------------------------
def r12_pdo(run, fx):
    rule = "R12-PDO"
    run.rule(rule, "CFF2 instancing: a charstring without its own vsindex operator blends with the vsindex of its font's Private DICT, and calls the "
                   "font's local subroutines; instancing a Private DICT removes its vsindex and the local subroutines are dropped afterwards. In "
                   "CFF2::instance_char_strings nothing that writes a font's private_dict or local_subr_index may reach (in the control flow graph) "
                   "the interpretation of a charstring (CharStringVisitorContext::visit): those writes come after the glyph loop")
    b = fx.body("cff::cff2::CFF2::<'a>::instance_char_strings")
    if b is None:
        return run.anchor_missing(rule, "CFF2::instance_char_strings")
    is_visit = lambda t: bool(re.search(r"CharStringVisitorContext(::<[^>]*>)?::visit$", str(t["callee"].get("path") or "")))
    visits = [bi for bi, t in b.calls() if is_visit(t)]
    # the glyph loop's body may live in a private helper of the module: a call of a cff2 function that (with its own helpers) interprets a
    # charstring counts as the interpretation
    for bi, t in b.calls():
        cp = str(t["callee"].get("path") or "")
        if bi in visits or not cp.startswith("cff::cff2::"):
            continue
        hb = fx.body(cp)
        if hb is not None and hb is not b and any(is_visit(t2) for g in fx.with_helpers(hb, "cff::cff2::") for fb in fx.family(g) for _, t2 in fb.calls()):
            visits.append(bi)
    writes = []
    fields = ("private_dict", "local_subr_index")
    for bi, blk in enumerate(b.blocks):
        if not b.reachable(bi):
            continue
        for st in blk["s"]:
            if st["k"] != "assign":
                continue
            fs = place_fields(st["p"]) if st["p"]["p"] else []
            if fs and fs[-1] in fields:
                writes.append((bi, st, "store to ." + fs[-1]))
            rv = st["rv"]
            if rv["k"] == "ref" and rv.get("mut") and rv["p"]["p"]:
                fr = place_fields(rv["p"])
                if fr and fr[-1] in fields:
                    writes.append((bi, st, "mutable borrow of ." + fr[-1]))
    if not visits or not writes:
        return run.anchor_missing(rule, "charstring visit / writes to private_dict in instance_char_strings (%d/%d)" % (len(visits), len(writes)))
    bad = []
    for bi, st, what in writes:
        after = set()
        for s_ in b.succs(bi):
            after |= b.reach_from(s_)
        if any(v in after for v in visits):
            bad.append((bi, st, what))
    if bad:
        bi, st, what = bad[0]
        run.fail(rule, "pdo:early-write", "in CFF2::instance_char_strings a %s can be followed by the interpretation of a charstring: a glyph that relies on the Private "
                 "DICT's vsindex (or on a local subroutine) is instanced against the already stripped font" % what, b.loc(st))
    else:
        run.ok(rule, "instance_char_strings: %d write(s) to private_dict / local_subr_index, none reaches the %d charstring visit(s)" % (len(writes), len(visits)))


def check(run, fx, tier, floors=True):
    import bsearch
    bsearch.rule_bsearch(run, fx, "R12-BS", select=lambda b: b.file.startswith(('src/tables/variable_fonts', 'src/variations.rs', 'src/tables/glyf/variation.rs')), floors=floors, floor_n=1)
    import ignored
    ignored.run_for(run, fx, 'C12', floors)
    if floors or fx.body("<tables::variable_fonts::mvar::MvarTable<'_> as binary::read::ReadBinary>::read") is not None:
        r12_s(run, fx)
    r12_p(run, fx)
    if floors or any(fx.body(p) is not None for p in VAR_LAYOUTS):
        r12_l(run, fx, floors)
        import speclayout
        speclayout.rule_records(run, fx, "R12-R", ["variations"], floors)
    r12_t(run, fx, floors)
    if floors or fx.body("variations::process_mvar") is not None:
        r12_m(run, fx)
    r12_v(run, fx)
    r12_d(run, fx)
    r12_tent(run, fx, floors)
    if floors or fx.body("cff::cff2::CFF2::<'a>::instance_char_strings") is not None:
        r12_pdo(run, fx)
    r12_f(run, fx, floors)
    if floors or any("TupleVariationHeader" in b.path for b in fx.bodies):
        r12_xy(run, fx)
    import zipalign
    zipalign.rule_zip(run, fx, "R12-Z", select=(lambda b: b.file.startswith(("src/tables/variable_fonts", "src/tables/glyf/variation", "src/variations"))) if floors else None, floors=floors, floor_n=5)
    recursion.run_rule(run, fx, "C01-a", lambda f: any("glyf::variation" in p or p.startswith("variations::") for p in f.local_paths),
                       floors_n=1 if floors else None)
