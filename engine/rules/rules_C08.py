"""C08 — subsetting preserves the character mapping of retained glyphs: the structural clauses.

T08-TS    id-space typestate: MappingsToKeep<NewIds> is produced only by update_to_new_ids, which maps every value
          through SubsetGlyphs::new_id; MappingsToKeep<OldIds> only by MappingsToKeep::new; the cmap builders accept
          only <NewIds>
T08-SEL   retained mappings are selected by membership of the glyph id in the caller's list (order independent)
T08-MAC   the Mac Roman conversions used for the Mac Roman target are mutual inverses (rule T06-INV)
T08-NARROW no lossy casts of ids/codes in the cmap builders and the owned cmap writer
"""
import re

import narrowing
import rules_C06
import sym
from facts import callee_is

LEVEL = "other"
EXPLANATION = (
    "Decides the id-space discipline behind C08. Old (source) and new (subset) glyph ids are both u16, so the type checker cannot tell them apart; "
    "the crate marks the space with a phantom parameter. The rules check that this marking is sound: values of MappingsToKeep are built by literal "
    "in exactly two functions — MappingsToKeep::<OldIds>::new (from the source cmap) and update_to_new_ids (typed <NewIds>) — that update_to_new_ids "
    "rewrites every stored glyph id through SubsetGlyphs::new_id on the very map it returns, and that every function that emits cmap data "
    "(EncodingRecord/CmapSubtableFormat4/Format12::from_mappings, create_cmap_table) takes &MappingsToKeep<NewIds>. The selection of mappings to keep "
    "tests membership of the glyph id in the caller's list with slice::contains, which does not depend on the order of that list. The Mac Roman "
    "tables used for the Mac Roman target are mutual inverses (read exhaustively from both match tables). No glyph id or character code is "
    "narrowed unchecked in the builders and writer."
)
NOT_DECIDED = "that the emitted format 0/4/12 sub-tables map each character to the right glyph (segment and delta arithmetic) is a value property and is not decided."
ASSUMPTIONS = ["slice::contains is an order-independent membership test (std contract)"]

MTK = "tables::cmap::subset::MappingsToKeep"
NEW = "tables::cmap::subset::MappingsToKeep::<tables::cmap::subset::OldIds>::new"
UPD = "tables::cmap::subset::MappingsToKeep::<tables::cmap::subset::OldIds>::update_to_new_ids"
CONSUMERS = [r"tables::cmap::subset::<impl tables::cmap::owned::EncodingRecord>::from_mappings$",
             r"tables::cmap::subset::<impl tables::cmap::owned::CmapSubtableFormat4>::from_mappings$",
             r"tables::cmap::subset::<impl tables::cmap::owned::CmapSubtableFormat12>::from_mappings$",
             r"^subset::create_cmap_table$"]


def t08_ts(run, fx):
    rule = "T08-TS"
    run.rule(rule, "MappingsToKeep literals occur only in MappingsToKeep::<OldIds>::new (typed OldIds) and update_to_new_ids (typed NewIds); "
                   "update_to_new_ids applies SubsetGlyphs::new_id to every value of the map it returns; every cmap builder takes <NewIds>")
    lits = 0
    for b in fx.bodies:
        for bi, blk in enumerate(b.blocks):
            if not b.reachable(bi):
                continue
            for s in blk["s"]:
                if s["k"] == "assign" and s["rv"]["k"] == "agg" and s["rv"].get("adt") == MTK:
                    lits += 1
                    ty = b.local_ty(s["p"]["l"]) if not s["p"]["p"] else ""
                    space = "NewIds" if "NewIds" in ty else ("OldIds" if "OldIds" in ty else "?")
                    want = {NEW: "OldIds", UPD: "NewIds"}.get(b.root)
                    if want is None:
                        run.fail(rule, "typestate:literal:%s" % b.root, "MappingsToKeep<%s> is constructed in %s: the id space marker can be forged" % (space, b.path), b.loc(s))
                    elif want != space:
                        run.fail(rule, "typestate:space:%s" % b.root, "%s builds MappingsToKeep<%s>, expected <%s>" % (b.path, space, want), b.loc(s))
                    else:
                        run.ok(rule, "%s builds MappingsToKeep<%s>" % (b.root.split("::")[-1], space))
    if lits < 2:
        run.anchor_missing(rule, "MappingsToKeep literals (found %d)" % lits)
    u = fx.body(UPD)
    if u is None:
        run.anchor_missing(rule, UPD)
    else:
        fam = fx.family(u)
        calls = [(fb, t) for fb in fam for _, t in fb.calls()]
        has_new_id = any(callee_is(t, "SubsetGlyphs::new_id") for _, t in calls)
        over_all = any(callee_is(t, "BTreeMap::<K, V, A>::iter_mut", "BTreeMap::<K, V, A>::values_mut") for _, t in calls)
        # consumed by for_each(closure), or by a `for` loop of the function that only ends when the iterator does
        by_loop = False
        if any(callee_is(t, "Iterator::next") for fb_, t in calls if fb_ is u):
            import rules_C06
            by_loop = not rules_C06.loop_early_exits(u)
        walks_all = over_all and (any(callee_is(t, "Iterator::for_each") for _, t in calls) or by_loop)
        # new_id(*gid) is stored through gid (in the closure, or in the loop body)
        stores = False
        for fb in fam:
            prov = sym.Prov(fb)
            for bi, blk in enumerate(fb.blocks):
                for s in blk["s"]:
                    if s["k"] == "assign" and s["p"]["p"] and s["p"]["p"][0] == "*":
                        v = prov.rvalue(s["rv"])
                        if any(x[0] == "call" and (x[4] or x[1] or "").endswith("SubsetGlyphs::new_id") for x in sym.walk(v)):
                            stores = True
        # the returned literal reuses self.mappings
        prov = sym.Prov(u)
        same_map = False
        for bi, blk in enumerate(u.blocks):
            for s in blk["s"]:
                if s["k"] == "assign" and s["rv"]["k"] == "agg" and s["rv"].get("adt") == MTK:
                    f = dict(zip(s["rv"]["fnames"], s["rv"]["fields"]))
                    t = sym.strip(prov.op(f["mappings"]))
                    same_map = any(x[0] == "field" and x[2] == "mappings" for x in sym.walk(t))
        if has_new_id and walks_all and stores and same_map:
            run.ok(rule, "update_to_new_ids: every value of self.mappings is replaced by new_id(value); the same map is returned as <NewIds>")
        else:
            run.fail(rule, "typestate:update_to_new_ids", "update_to_new_ids does not rewrite every glyph id through new_id on the map it returns (new_id=%s, whole-map walk=%s, store=%s, same map=%s)" % (
                has_new_id, walks_all, stores, same_map), "%s:%s" % (u.file, u.line))
    for rx in CONSUMERS:
        bs = [b for b in fx.bodies if re.search(rx, b.path) and b.kind != "Closure"]
        if len(bs) != 1:
            run.anchor_missing(rule, rx)
            continue
        b = bs[0]
        tys = [b.local_ty(l) for l in range(1, b.arg_count + 1) if "MappingsToKeep" in b.local_ty(l)]
        if tys and all("NewIds" in t for t in tys):
            run.ok(rule, "%s takes %s" % (b.root.split("::")[-1], tys[0].replace("tables::cmap::subset::", "")))
        else:
            run.fail(rule, "typestate:consumer:%s" % b.root, "%s takes %s: old glyph ids could be written into the subset cmap" % (b.path, tys or "no MappingsToKeep"), "%s:%s" % (b.file, b.line))


def t08_sel(run, fx):
    rule = "T08-SEL"
    run.rule(rule, "MappingsToKeep::new decides whether to keep a mapping with <[u16]>::contains(glyph_ids, &gid): no ordered search (binary_search, "
                   "sort, partition_point) touches the caller's glyph list")
    b = fx.body(NEW)
    if b is None:
        return run.anchor_missing(rule, NEW)
    contains = 0
    bad = []
    for fb in fx.family(b):
        for bi, t in fb.calls():
            p = t["callee"].get("path") or ""
            if p == "core::slice::<impl [T]>::contains":
                contains += 1
            if re.search(r"binary_search|partition_point|::sort|is_sorted", p):
                bad.append(p.split("::")[-1])
    if contains >= 1 and not bad:
        run.ok(rule, "selection by slice::contains (%d site(s)); no ordered search" % contains)
    else:
        run.fail(rule, "selection:ordered-search", "MappingsToKeep::new selects mappings with %s (contains sites: %d): the result depends on the order of the caller's glyph list" % (bad or "no membership test", contains), "%s:%s" % (b.file, b.line))


def t08_tgt(run, fx):
    rule = "T08-TGT"
    run.rule(rule, "the requested cmap target reaches the selection unchanged: in prince::subset the arm for PrinceCmapTarget::X builds "
                   "MappingsToKeep::new(.., CmapTarget::X) for X in {Unrestricted, MacRoman} (a Mac Roman request served with the unrestricted "
                   "target keeps characters the target encoding cannot express)")
    bs = [b for b in fx.bodies if b.kind != "Closure" and b.root.endswith("prince::subset")]
    if not bs:
        return run.anchor_missing(rule, "subset::prince::subset")
    b = bs[0]
    prov = sym.Prov(b)
    adt = fx.adt("subset::prince::PrinceCmapTarget")
    names = {i: v["name"] for i, v in enumerate(adt["variants"])} if adt else {}
    sw = None
    for bi in range(len(b.blocks)):
        t = b.term(bi)
        if t["k"] == "switch" and b.reachable(bi):
            d = sym.strip(prov.op(t["discr"]))
            if sw is None and len(t["arms"]) >= 3 and d[0] == "discr" and any(x[0] == "arg" and x[2] == "cmap_target" for x in sym.walk(d)):
                sw = t
    if sw is None or not names:
        return run.anchor_missing(rule, "match on cmap_target in prince::subset")
    n = 0
    for val, tgt in sw["arms"]:
        nm = names.get(val)
        if nm not in ("Unrestricted", "MacRoman"):
            continue
        for bi, t in b.calls():
            if callee_is(t, "MappingsToKeep::<tables::cmap::subset::OldIds>::new", "MappingsToKeep::<OldIds>::new") or (t["callee"].get("path") or "").endswith("MappingsToKeep::<tables::cmap::subset::OldIds>::new"):
                if b.dominates(tgt, bi):
                    n += 1
                    a = sym.strip(prov.op(t["args"][-1]))
                    got = a[2] if a[0] == "agg" else sym.show(a)[:30]
                    if got == nm:
                        run.ok(rule, "PrinceCmapTarget::%s -> CmapTarget::%s" % (nm, got))
                    else:
                        run.fail(rule, "target:%s" % nm, "prince::subset serves PrinceCmapTarget::%s with CmapTarget::%s" % (nm, got), b.loc(t))
    if n < 2:
        run.anchor_missing(rule, "MappingsToKeep::new under the Unrestricted and MacRoman arms (found %d)" % n)


def check(run, fx, tier, floors=True):
    import bsearch
    bsearch.rule_bsearch(run, fx, "T08-BS", select=lambda b: b.file.startswith(('src/subset.rs', 'src/tables/cmap')), floors=floors, floor_n=0)
    if (floors and run.config in (None, "prince")) or any(b.root.endswith("prince::subset") for b in fx.bodies):
        t08_tgt(run, fx)
    t08_ts(run, fx)
    t08_sel(run, fx)
    rules_C06.check(run, fx, tier, floors)
    narrowing.rule_narrowing(run, fx, "T08-NARROW", floors=False, roots=None,
                             select=lambda b: b.root.startswith("tables::cmap::subset::") or b.root.startswith("<tables::cmap::owned::") or b.root.startswith("tables::cmap::owned::") or b.root == "subset::create_cmap_table")
