//! F19: `morx` state machines have no bound on consecutive DONT_ADVANCE transitions.
//!
//! A state table whose entry for (state S, class C) is `{newState: S, flags: DONT_ADVANCE}` makes
//! `ContextualSubstitution::process_glyphs` / `LigatureSubstitution::process_glyphs` re-process
//! the same glyph in the same state forever.

use std::sync::mpsc;
use std::thread;
use std::time::Duration;

use allsorts::binary::read::ReadScope;
use allsorts::error::ParseError;
use allsorts::gsub::{FeatureMask, Features, GlyphOrigin, RawGlyph, RawGlyphFlags};
use allsorts::layout::morx;
use allsorts::tables::morx::MorxTable;
use allsorts::tinyvec::tiny_vec;

const NUM_GLYPHS: u16 = 20;
/// The glyph that the class table maps to class 4.
const GLYPH: u16 = 10;

fn be16(out: &mut Vec<u8>, vals: &[u16]) {
    for v in vals {
        out.extend_from_slice(&v.to_be_bytes());
    }
}

fn be32(out: &mut Vec<u8>, vals: &[u32]) {
    for v in vals {
        out.extend_from_slice(&v.to_be_bytes());
    }
}

/// Wrap a subtable body in a version 2 `morx` table with one chain and one subtable.
fn morx_table(coverage: u32, body: &[u8]) -> Vec<u8> {
    let subtable_len = 12 + body.len() as u32;
    let chain_len = 16 + subtable_len;
    let mut t = Vec::new();
    be16(&mut t, &[2, 0]); // version, unused
    be32(&mut t, &[1]); // nChains
    be32(&mut t, &[1, chain_len, 0, 1]); // defaultFlags, chainLength, nFeatureEntries, nSubtables
    be32(&mut t, &[subtable_len, coverage, 1]); // length, coverage, subFeatureFlags
    t.extend_from_slice(body);
    t
}

/// Class table (lookup format 8): glyph 10 -> class 4.
fn class_table(out: &mut Vec<u8>) {
    be16(out, &[8, GLYPH, 1, 4]);
}

/// Two states x five classes. Class 4 selects entry 1 in both states, everything else entry 0.
fn state_array(out: &mut Vec<u8>) {
    be16(out, &[0, 0, 0, 0, 1]); // state 0
    be16(out, &[0, 0, 0, 0, 1]); // state 1
}

/// Contextual (type 1) subtable.
fn contextual_morx() -> Vec<u8> {
    let mut b = Vec::new();
    // STXHeader: nClasses, classTableOffset, stateArrayOffset, entryTableOffset
    be32(&mut b, &[5, 20, 28, 48]);
    be32(&mut b, &[64]); // substitutionTableOffset
    assert_eq!(b.len(), 20);
    class_table(&mut b);
    assert_eq!(b.len(), 28);
    state_array(&mut b);
    assert_eq!(b.len(), 48);
    // Entry table: newState, flags, markIndex, currentIndex
    be16(&mut b, &[0, 0x0000, 0xFFFF, 0xFFFF]); // entry 0: no-op
    be16(&mut b, &[1, 0x4000, 0xFFFF, 0xFFFF]); // entry 1: go to state 1, DONT_ADVANCE
    assert_eq!(b.len(), 64);
    be32(&mut b, &[0]); // substitution table offsets: first offset 0 => no lookup tables
    morx_table(1, &b)
}

/// Ligature (type 2) subtable.
fn ligature_morx() -> Vec<u8> {
    let mut b = Vec::new();
    // STXHeader: nClasses, classTableOffset, stateArrayOffset, entryTableOffset
    be32(&mut b, &[5, 28, 36, 56]);
    be32(&mut b, &[68, 68, 68]); // ligActionOffset, componentOffset, ligatureListOffset
    assert_eq!(b.len(), 28);
    class_table(&mut b);
    assert_eq!(b.len(), 36);
    state_array(&mut b);
    assert_eq!(b.len(), 56);
    // Entry table: newState, flags, ligActionIndex
    be16(&mut b, &[0, 0x0000, 0]); // entry 0: no-op
    be16(&mut b, &[1, 0x4000, 0]); // entry 1: go to state 1, DONT_ADVANCE
    assert_eq!(b.len(), 68);
    be32(&mut b, &[0]); // padding shared by the (unused) action/component/ligature tables
    morx_table(2, &b)
}

fn glyph(glyph_index: u16) -> RawGlyph<()> {
    RawGlyph {
        unicodes: tiny_vec![[char; 1] => 'a'],
        glyph_index,
        liga_component_pos: 0,
        glyph_origin: GlyphOrigin::Direct,
        flags: RawGlyphFlags::empty(),
        variation: None,
        extra_data: (),
    }
}

/// Parse and apply `data` to `glyphs` on another thread; `None` if it did not finish in time.
fn apply_with_timeout(data: Vec<u8>, glyphs: Vec<u16>) -> Option<Result<Vec<u16>, ParseError>> {
    let (tx, rx) = mpsc::channel();
    thread::spawn(move || {
        let morx_table = ReadScope::new(&data)
            .read_dep::<MorxTable<'_>>(NUM_GLYPHS)
            .expect("crafted morx table should parse");
        let mut glyphs = glyphs.into_iter().map(glyph).collect::<Vec<_>>();
        let features = Features::Mask(FeatureMask::default());
        let res = morx::apply(&morx_table, &mut glyphs, &features)
            .map(|()| glyphs.iter().map(|g| g.glyph_index).collect::<Vec<_>>());
        let _ = tx.send(res);
    });
    rx.recv_timeout(Duration::from_secs(3)).ok()
}

#[test]
fn contextual_dont_advance_loop_terminates() {
    let res = apply_with_timeout(contextual_morx(), vec![GLYPH]);
    assert!(
        res.is_some(),
        "morx::apply (contextual subtable) did not terminate within 3s"
    );
    println!("contextual: {:?}", res);
}

#[test]
fn ligature_dont_advance_loop_terminates() {
    let res = apply_with_timeout(ligature_morx(), vec![GLYPH]);
    assert!(
        res.is_some(),
        "morx::apply (ligature subtable) did not terminate within 3s"
    );
    println!("ligature: {:?}", res);
}

/// Control: the same tables applied to a glyph of another class terminate and leave the glyphs
/// untouched, so the hang is due to the DONT_ADVANCE entry and not the harness.
#[test]
fn control_other_class_terminates() {
    for data in [contextual_morx(), ligature_morx()] {
        let res = apply_with_timeout(data, vec![3, 4, 5]);
        assert_eq!(res, Some(Ok(vec![3, 4, 5])));
    }
}

#[test]
fn dump_table_bytes() {
    for (name, data) in [
        ("contextual", contextual_morx()),
        ("ligature", ligature_morx()),
    ] {
        let hex = data
            .iter()
            .map(|b| format!("{:02x}", b))
            .collect::<String>();
        println!("{} ({} bytes): {}", name, data.len(), hex);
    }
}
