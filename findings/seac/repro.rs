//! Reproductions for two defects in the `seac` (endchar with 4/5 operands) handling of
//! `CharStringVisitorContext::visit_impl` in src/cff/charstring.rs.
//!
//! F1:  the recursion into the base/accent glyphs has no nesting limit.
//! F16: with exactly four operands and no width parsed yet, a fifth operand is popped from the
//!      (now empty) operand stack.
//!
//! Each test builds a tiny, self-contained CFF table (Type 1 flavoured, default ISOAdobe charset,
//! default Standard encoding) and asks for the outline of a glyph through the public
//! `OutlineBuilder` API. The tests assert the behaviour expected of a robust parser: a normal
//! `Ok`/`Err` return, never a panic or a crash.

use std::process::Command;

use allsorts::binary::read::ReadScope;
use allsorts::cff::{CFFError, CFF};
use allsorts::outline::{OutlineBuilder, OutlineSink};
use allsorts::pathfinder_geometry::line_segment::LineSegment2F;
use allsorts::pathfinder_geometry::vector::Vector2F;

const ENDCHAR: u8 = 14;

/// CharString encoding of an integer in the range -107..=107.
const fn int(v: i16) -> u8 {
    (v + 139) as u8
}

// With the ISOAdobe charset glyph id == string id, so the Standard Encoding code 32 (space,
// SID 1) maps to glyph 1 and code 33 (exclam, SID 2) maps to glyph 2.
const CODE_GLYPH_1: u8 = int(32);
const CODE_GLYPH_2: u8 = int(33);

struct NullSink;

impl OutlineSink for NullSink {
    fn move_to(&mut self, _to: Vector2F) {}
    fn line_to(&mut self, _to: Vector2F) {}
    fn quadratic_curve_to(&mut self, _ctrl: Vector2F, _to: Vector2F) {}
    fn cubic_curve_to(&mut self, _ctrl: LineSegment2F, _to: Vector2F) {}
    fn close(&mut self) {}
}

/// DICT encoding of a 32-bit integer operand.
fn dict_int(v: u32) -> [u8; 5] {
    let b = v.to_be_bytes();
    [29, b[0], b[1], b[2], b[3]]
}

/// Build a minimal CFF table holding the supplied CharStrings.
fn build_cff(char_strings: &[&[u8]]) -> Vec<u8> {
    // CharStrings INDEX
    let mut cs_index = Vec::new();
    cs_index.extend_from_slice(&(char_strings.len() as u16).to_be_bytes());
    cs_index.push(1); // offSize
    let mut offset = 1u8;
    cs_index.push(offset);
    for cs in char_strings {
        offset += cs.len() as u8;
        cs_index.push(offset);
    }
    for cs in char_strings {
        cs_index.extend_from_slice(cs);
    }

    // Header (4) + Name INDEX (6) + Top DICT INDEX (5 + 13) + String INDEX (2) + Global Subr
    // INDEX (2) = 32
    let char_strings_offset = 32u32;
    let private_offset = char_strings_offset + cs_index.len() as u32;

    let mut top_dict = Vec::new();
    top_dict.extend_from_slice(&dict_int(char_strings_offset));
    top_dict.push(17); // CharStrings
    top_dict.push(int(0)); // Private DICT size: 0
    top_dict.extend_from_slice(&dict_int(private_offset));
    top_dict.push(18); // Private
    assert_eq!(top_dict.len(), 13);

    let mut cff = vec![1, 0, 4, 1]; // Header: major, minor, hdrSize, offSize
    cff.extend_from_slice(&[0, 1, 1, 1, 2, b'A']); // Name INDEX: ["A"]
    cff.extend_from_slice(&[0, 1, 1, 1, 1 + top_dict.len() as u8]); // Top DICT INDEX
    cff.extend_from_slice(&top_dict);
    cff.extend_from_slice(&[0, 0]); // String INDEX (empty)
    cff.extend_from_slice(&[0, 0]); // Global Subr INDEX (empty)
    assert_eq!(cff.len(), char_strings_offset as usize);
    cff.extend_from_slice(&cs_index);
    cff.push(0); // padding so that the (empty) Private DICT offset is inside the table
    cff
}

fn outline(data: &[u8], glyph_id: u16) -> Result<(), CFFError> {
    let mut cff = ReadScope::new(data)
        .read::<CFF<'_>>()
        .expect("unable to parse CFF table");
    cff.visit(glyph_id, &mut NullSink)
}

/// Font for F16: glyph 0 is a seac glyph with exactly four operands (no width), composed of the
/// two empty glyphs 1 and 2.
fn f16_font() -> Vec<u8> {
    build_cff(&[
        // adx ady bchar achar endchar
        &[int(0), int(0), CODE_GLYPH_1, CODE_GLYPH_2, ENDCHAR],
        &[ENDCHAR],
        &[ENDCHAR],
    ])
}

/// Font for F1: glyph 0 is a seac glyph with width (five operands) whose base and accent are
/// glyph 1; glyph 1 is a seac glyph (four operands) whose base and accent are glyph 1 itself.
///
/// Glyph 0 has a width operand so that the width is already parsed when glyph 1 is entered,
/// which keeps this reproduction clear of F16.
fn f1_font() -> Vec<u8> {
    build_cff(&[
        // w adx ady bchar achar endchar
        &[int(0), int(0), int(0), CODE_GLYPH_1, CODE_GLYPH_1, ENDCHAR],
        // adx ady bchar achar endchar
        &[int(0), int(0), CODE_GLYPH_1, CODE_GLYPH_1, ENDCHAR],
    ])
}

#[test]
fn f16_seac_four_operands_without_width() {
    // A seac endchar with four operands and the default width is valid; it must not touch the
    // operand stack beyond the four operands.
    let data = f16_font();
    let res = std::panic::catch_unwind(|| outline(&data, 0));
    match res {
        Ok(res) => assert_eq!(res, Ok(())),
        Err(_) => panic!("F16: panicked while processing seac with 4 operands and default width"),
    }
}

const F1_CHILD_ENV: &str = "VERIF_SEAC_F1_CHILD";

#[test]
fn f1_seac_self_reference() {
    if std::env::var_os(F1_CHILD_ENV).is_some() {
        // Child: actually run the charstring. Without a nesting limit this either panics on
        // `depth + 1` (overflow checks on) or overflows the stack (overflow checks off).
        let res = outline(&f1_font(), 0);
        println!("F1 child result: {:?}", res);
        assert_eq!(res, Err(CFFError::NestingLimitReached));
        return;
    }

    // Parent: run this same test in a child process so that a stack overflow (which aborts the
    // process with SIGSEGV/SIGABRT and can not be caught) is reported as a test failure.
    let exe = std::env::current_exe().unwrap();
    let output = Command::new(exe)
        .args([
            "--exact",
            "f1_seac_self_reference",
            "--nocapture",
            "--test-threads=1",
        ])
        .env(F1_CHILD_ENV, "1")
        .output()
        .unwrap();
    let stdout = String::from_utf8_lossy(&output.stdout);
    let stderr = String::from_utf8_lossy(&output.stderr);
    assert!(
        output.status.success(),
        "F1: child did not finish normally: {:?}\n--- child stdout ---\n{}\n--- child stderr ---\n{}",
        output.status,
        stdout,
        stderr
    );
    assert!(stdout.contains("F1 child result: Err(NestingLimitReached)"));
}

#[test]
fn f1_f16_direct_self_reference() {
    // The shortest malicious input: a single glyph `0 0 0 0 endchar`. Standard Encoding code 0
    // is .notdef, i.e. glyph 0 itself. Hits F16 first; with F16 fixed it hits F1. Needs both
    // fixes to pass. Run in a child process for the same reason as above.
    const ENV: &str = "VERIF_SEAC_BOTH_CHILD";
    if std::env::var_os(ENV).is_some() {
        let data = build_cff(&[&[int(0), int(0), int(0), int(0), ENDCHAR]]);
        let res = outline(&data, 0);
        println!("F1+F16 child result: {:?}", res);
        assert_eq!(res, Err(CFFError::NestingLimitReached));
        return;
    }

    let exe = std::env::current_exe().unwrap();
    let output = Command::new(exe)
        .args([
            "--exact",
            "f1_f16_direct_self_reference",
            "--nocapture",
            "--test-threads=1",
        ])
        .env(ENV, "1")
        .output()
        .unwrap();
    let stdout = String::from_utf8_lossy(&output.stdout);
    let stderr = String::from_utf8_lossy(&output.stderr);
    assert!(
        output.status.success(),
        "F1+F16: child did not finish normally: {:?}\n--- child stdout ---\n{}\n--- child stderr ---\n{}",
        output.status,
        stdout,
        stderr
    );
    assert!(stdout.contains("F1+F16 child result: Err(NestingLimitReached)"));
}
