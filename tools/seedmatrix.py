#!/usr/bin/env python3
"""Run every rules module against every seeded change, in a scratch worktree of /repo (never /repo
itself), loading the facts once per seed. Prints one line per (seed, property) with violations and a
summary table.

  tools/seedmatrix.py <scratch worktree> <seed dir> [<seed dir> ...]     seed dir contains patch.diff
"""
import importlib
import json
import os
import subprocess
import sys
import time

HERE = os.path.dirname(os.path.dirname(os.path.abspath(__file__)))
sys.path.insert(0, os.path.join(HERE, "engine", "rules"))


def main():
    wt = os.path.abspath(sys.argv[1])
    seeds = sys.argv[2:]
    os.environ["VERIF_REPO"] = wt
    import core
    import extract
    import facts as F
    props = sorted(f[len("rules_"):-3] for f in os.listdir(os.path.join(HERE, "engine", "rules")) if f.startswith("rules_C"))
    mods = {p: importlib.import_module("rules_" + p) for p in props}
    table = {}
    for sd in seeds:
        name = os.path.basename(sd.rstrip("/")) if "/seeded/" in os.path.abspath(sd) or "/selftest/" in os.path.abspath(sd) else sd.rstrip("/").replace("/tmp/seed/", "").replace("/out/", "-")
        patch = os.path.join(sd, "patch.diff")
        subprocess.run(["git", "-C", wt, "reset", "-q", "--hard"], check=True)
        r = subprocess.run(["git", "-C", wt, "apply", patch], capture_output=True, text=True)
        if r.returncode != 0:
            r = subprocess.run(["git", "-C", wt, "apply", "--3way", patch], capture_output=True, text=True)
        if r.returncode != 0:
            print("=== %s: patch does not apply: %s" % (name, r.stderr.strip()[:200]))
            table[name] = None
            continue
        t0 = time.time()
        try:
            raw = extract.repo_facts("prince")
        except SystemExit as e:
            print("=== %s: extraction failed: %s" % (name, e))
            table[name] = None
            subprocess.run(["git", "-C", wt, "reset", "-q", "--hard"], check=True)
            continue
        fx = F.Facts(raw)
        caught = {}
        for p in props:
            run = core.Run(p, "quick")
            run.set_config("prince")
            try:
                mods[p].check(run, fx, "quick")
            except Exception as e:  # a crash of a rule on mutated code is a defect of the rule: show it
                print("    %s CRASH %r" % (p, e))
                caught[p] = ["CRASH %r" % e]
                continue
            vs = [(v["rule"], v["key"], v["message"]) for v in run.violations]
            if vs:
                caught[p] = vs
        print("=== %s (%.0fs): %s" % (name, time.time() - t0, ",".join(sorted(caught)) or "none"))
        for p, vs in sorted(caught.items()):
            for v in vs[:4]:
                if isinstance(v, tuple):
                    print("    %s %s %s :: %s" % (p, v[0], v[1][:110], v[2][:160]))
                else:
                    print("    %s %s" % (p, v))
        table[name] = {p: sorted({v[0] if isinstance(v, tuple) else "CRASH" for v in vs}) for p, vs in sorted(caught.items())}
        subprocess.run(["git", "-C", wt, "reset", "-q", "--hard"], check=True)
    print("\nSUMMARY")
    for k, v in table.items():
        print("%-10s %s" % (k, "n/a (patch does not apply)" if v is None else (",".join(v) or "MISSED")))
    json.dump(table, open(os.environ.get("SEEDMATRIX_OUT", "/tmp/seedmatrix.json"), "w"), indent=1)


if __name__ == "__main__":
    main()
