#!/usr/bin/env python3
"""Confirm a seeded change independently of the agent that wrote it, in a scratch worktree:
  - the demo passes on the unmodified tree
  - with the patch: the crate builds (default and --features prince), the existing test suite shows only the
    10 baseline failures, and the demo fails
Writes <seed dir>/confirm.json.   usage: confirm_seed.py <scratch worktree> <seed dir> [...]"""
import json
import os
import re
import subprocess
import sys

KNOWN = {"test_lookup_cblc", "test_glyph_names", "test_shape_emoji_flag", "test_shape_emoji_hair_component", "test_shape_emoji_sequence",
         "test_shape_emoji_zwj_sequence", "test_mappings_format0", "test_mappings_format12", "test_mappings_format4", "test_read_svg"}


def sh(cmd, cwd, timeout=1800):
    env = dict(os.environ, CARGO_NET_OFFLINE="true")
    try:
        r = subprocess.run(cmd, cwd=cwd, env=env, stdout=subprocess.PIPE, stderr=subprocess.STDOUT, text=True, timeout=timeout)
        return r.returncode, r.stdout
    except subprocess.TimeoutExpired as e:
        return 124, (e.stdout or "") + "\nTIMEOUT"


def main():
    wt = os.path.abspath(sys.argv[1])
    extra = os.environ.get("DEMO_FEATURES", "").split()     # e.g. "--features prince" when the README says the demo needs it
    for sd in sys.argv[2:]:
        sd = sd.rstrip("/")
        res = {"seed": sd}
        patch = os.path.join(sd, "patch.diff")
        demo = os.path.join(sd, "demo.rs")
        sh(["git", "checkout", "--", "."], wt)
        for f in os.listdir(os.path.join(wt, "tests")):
            if f.startswith("demo_"):
                os.remove(os.path.join(wt, "tests", f))
        tname = "demo_" + re.sub(r"\W", "_", sd.replace("/tmp/seed", "").strip("/"))
        dst = os.path.join(wt, "tests", tname + ".rs")
        open(dst, "w").write(open(demo).read())
        rc, out = sh(["cargo", "test", "--offline"] + extra + ["--test", tname, "--", "--include-ignored"], wt)
        res["demo_without_patch"] = "pass" if rc == 0 else "FAIL"
        rc, out = sh(["git", "apply", patch], wt)
        if rc != 0:
            sh(["git", "reset", "--hard"], wt)
            rc, out = sh(["git", "apply", "--3way", patch], wt)
            if rc != 0:
                sh(["git", "reset", "--hard"], wt)
        if rc != 0:
            res["apply"] = "FAIL: " + out[-200:]
            json.dump(res, open(os.path.join(sd, "confirm.json"), "w"), indent=1)
            print(json.dumps(res))
            os.remove(dst)
            continue
        res["apply"] = "ok"
        rc1, _ = sh(["cargo", "build", "--offline"], wt)
        rc2, _ = sh(["cargo", "build", "--offline", "--features", "prince"], wt)
        res["build"] = "ok" if rc1 == 0 and rc2 == 0 else "FAIL"
        rc, out = sh(["cargo", "test", "--workspace", "--no-fail-fast", "--offline", "--", "--skip", "zzzz"], wt)
        failed = set(re.findall(r"^test (\S+) \.\.\. FAILED", out, re.M))
        failed = {f.split("::")[-1] for f in failed if not f.startswith(tname)}
        # the demo file is part of the workspace tests: ignore its own failures here
        demo_names = set(re.findall(r"fn (\w+)\s*\(", open(demo).read()))
        other = failed - KNOWN - demo_names
        res["suite_with_patch"] = "only baseline failures" if not other else "EXTRA FAILURES: %s" % sorted(other)
        rc, out = sh(["cargo", "test", "--offline"] + extra + ["--test", tname, "--", "--include-ignored"], wt, timeout=600)
        res["demo_with_patch"] = "fails" if rc != 0 else "PASSES"
        res["confirmed"] = (res["demo_without_patch"] == "pass" and res["build"] == "ok" and not other and rc != 0)
        sh(["git", "checkout", "--", "."], wt)
        os.remove(dst)
        json.dump(res, open(os.path.join(sd, "confirm.json"), "w"), indent=1)
        print(json.dumps(res))


if __name__ == "__main__":
    main()
