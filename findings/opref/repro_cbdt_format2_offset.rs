//! CBLC index sub table format 2 (all glyphs share one image size): the offset of a glyph's image is
//! imageDataOffset + (glyph - firstGlyph) * imageSize, all three taken from the font. With imageSize 0x8000_0000 and the third
//! glyph of the record the product does not fit in 32 bits: `MatchingStrike::bitmap` must report an error, not panic
//! ("attempt to multiply with overflow"). Same for index format 5.
use allsorts::binary::read::ReadScope;
use allsorts::bitmap::cbdt::{CBDTTable, CBLCTable};
use allsorts::bitmap::BitDepth;

fn cblc(index_format: u16, image_data_offset: u32, image_size: u32) -> Vec<u8> {
    let mut t = Vec::new();
    t.extend_from_slice(&[0, 3, 0, 0]); // version 3.0
    t.extend_from_slice(&1u32.to_be_bytes()); // numSizes
    // BitmapSize record (48 bytes)
    t.extend_from_slice(&56u32.to_be_bytes()); // indexSubTableArrayOffset
    t.extend_from_slice(&64u32.to_be_bytes()); // indexTablesSize
    t.extend_from_slice(&1u32.to_be_bytes()); // numberOfIndexSubTables
    t.extend_from_slice(&0u32.to_be_bytes()); // colorRef
    t.extend_from_slice(&[0; 12]); // hori
    t.extend_from_slice(&[0; 12]); // vert
    t.extend_from_slice(&10u16.to_be_bytes()); // startGlyphIndex
    t.extend_from_slice(&13u16.to_be_bytes()); // endGlyphIndex
    t.extend_from_slice(&[16, 16, 32, 1]); // ppemX, ppemY, bitDepth, flags
    assert_eq!(t.len(), 56);
    // IndexSubTableArray: one record
    t.extend_from_slice(&10u16.to_be_bytes()); // firstGlyphIndex
    t.extend_from_slice(&13u16.to_be_bytes()); // lastGlyphIndex
    t.extend_from_slice(&8u32.to_be_bytes()); // additionalOffsetToIndexSubtable
    // IndexSubTable header
    t.extend_from_slice(&index_format.to_be_bytes()); // indexFormat
    t.extend_from_slice(&5u16.to_be_bytes()); // imageFormat 5: metrics in the index table, bit aligned data
    t.extend_from_slice(&image_data_offset.to_be_bytes());
    t.extend_from_slice(&image_size.to_be_bytes()); // imageSize
    t.extend_from_slice(&[16, 16, 0, 16, 16, 0, 0, 16]); // BigGlyphMetrics
    if index_format == 5 {
        t.extend_from_slice(&4u32.to_be_bytes()); // numGlyphs
        for g in 10u16..=13 {
            t.extend_from_slice(&g.to_be_bytes()); // glyphIdArray
        }
    }
    t
}

fn lookup_all(index_format: u16, image_data_offset: u32, image_size: u32) {
    let cblc_data = cblc(index_format, image_data_offset, image_size);
    let cbdt_data = vec![0, 3, 0, 0, 1, 2, 3, 4, 5, 6, 7, 8];
    let cblc = ReadScope::new(&cblc_data).read::<CBLCTable<'_>>().expect("CBLC");
    let cbdt = ReadScope::new(&cbdt_data).read::<CBDTTable<'_>>().expect("CBDT");
    for glyph_id in 10u16..=13 {
        if let Some(strike) = cblc.find_strike(glyph_id, 16, BitDepth::ThirtyTwo) {
            // a value or an error
            let _ = strike.bitmap(&cbdt);
        }
    }
}

#[test]
fn index_format_2_product_exceeds_32_bits() {
    lookup_all(2, 4, 0x8000_0000);
}

#[test]
fn index_format_2_sum_exceeds_32_bits() {
    lookup_all(2, 0xFFFF_FFF0, 0x10);
}

#[test]
fn index_format_5_product_exceeds_32_bits() {
    lookup_all(5, 4, 0x8000_0000);
}

#[test]
fn index_format_5_sum_exceeds_32_bits() {
    lookup_all(5, 0xFFFF_FFF0, 0x10);
}
