//! Demonstration: `allsorts::variations::instance` on a CFF2 variable font without an `HVAR`
//! table passes the source `hmtx` through unchanged but sets `hhea.numberOfHMetrics` to
//! `maxp.numGlyphs`. When the source `hmtx` is compact (numberOfHMetrics < numGlyphs) the
//! instanced font then holds an `hmtx` table that is too short for its own `hhea`.

use std::borrow::Cow;

use allsorts::binary::read::ReadScope;
use allsorts::error::ParseError;
use allsorts::font_data::FontData;
use allsorts::tables::variable_fonts::fvar::FvarTable;
use allsorts::tables::{FontTableProvider, HheaTable, HmtxTable, MaxpTable};
use allsorts::tag;

const FONT: &str = "tests/fonts/opentype/cff2/SourceSansVariable-Roman.abc.otf";

/// A `FontTableProvider` that overrides some tables of another provider and hides others.
struct PatchedProvider<'a, P> {
    inner: &'a P,
    tables: Vec<(u32, Vec<u8>)>,
    hidden: Vec<u32>,
}

impl<'a, P: FontTableProvider> FontTableProvider for PatchedProvider<'a, P> {
    fn table_data(&self, tag: u32) -> Result<Option<Cow<'_, [u8]>>, ParseError> {
        if self.hidden.contains(&tag) {
            return Ok(None);
        }
        match self.tables.iter().find(|(t, _)| *t == tag) {
            Some((_, data)) => Ok(Some(Cow::Borrowed(data.as_slice()))),
            None => self.inner.table_data(tag),
        }
    }

    fn has_table(&self, tag: u32) -> bool {
        !self.hidden.contains(&tag) && self.inner.has_table(tag)
    }

    fn table_tags(&self) -> Option<Vec<u32>> {
        self.inner.table_tags().map(|tags| {
            tags.into_iter()
                .filter(|tag| !self.hidden.contains(tag))
                .collect()
        })
    }
}

/// Read maxp, hhea and hmtx of `provider`, using only the provider's own tables, and return
/// (numGlyphs, numberOfHMetrics, hmtx length in bytes, advance of each glyph).
fn read_advances(provider: &impl FontTableProvider) -> Result<(u16, u16, usize, Vec<u16>), String> {
    let maxp_data = provider
        .read_table_data(tag::MAXP)
        .map_err(|e| e.to_string())?;
    let maxp = ReadScope::new(&maxp_data)
        .read::<MaxpTable>()
        .map_err(|e| format!("maxp: {}", e))?;
    let hhea_data = provider
        .read_table_data(tag::HHEA)
        .map_err(|e| e.to_string())?;
    let hhea = ReadScope::new(&hhea_data)
        .read::<HheaTable>()
        .map_err(|e| format!("hhea: {}", e))?;
    let hmtx_data = provider
        .read_table_data(tag::HMTX)
        .map_err(|e| e.to_string())?;
    let hmtx = ReadScope::new(&hmtx_data)
        .read_dep::<HmtxTable<'_>>((
            usize::from(maxp.num_glyphs),
            usize::from(hhea.num_h_metrics),
        ))
        .map_err(|e| {
            format!(
                "hmtx: {} (numGlyphs = {}, numberOfHMetrics = {}, hmtx is {} bytes, {} needed)",
                e,
                maxp.num_glyphs,
                hhea.num_h_metrics,
                hmtx_data.len(),
                4 * usize::from(hhea.num_h_metrics)
                    + 2 * usize::from(maxp.num_glyphs.saturating_sub(hhea.num_h_metrics))
            )
        })?;
    let advances = (0..maxp.num_glyphs)
        .map(|glyph_id| hmtx.horizontal_advance(glyph_id))
        .collect::<Result<Vec<_>, _>>()
        .map_err(|e| format!("horizontal_advance: {}", e))?;
    Ok((
        maxp.num_glyphs,
        hhea.num_h_metrics,
        hmtx_data.len(),
        advances,
    ))
}

/// Instance the CFF2 test font at the maximum of each axis with `HVAR` hidden and with `hmtx`
/// compacted to `k` long metrics. Returns (source advances, result of reading the instance).
fn instance_without_hvar(
    k: Option<u16>,
) -> (Vec<u16>, Result<(u16, u16, usize, Vec<u16>), String>) {
    instance_patched(k, true)
}

/// As above; `HVAR` is only hidden when `hide_hvar` is true.
fn instance_patched(
    k: Option<u16>,
    hide_hvar: bool,
) -> (Vec<u16>, Result<(u16, u16, usize, Vec<u16>), String>) {
    let buffer = std::fs::read(FONT).unwrap();
    let font_file = ReadScope::new(&buffer).read::<FontData<'_>>().unwrap();
    let provider = font_file.table_provider(0).unwrap();
    assert!(provider.has_table(tag::CFF2));
    assert!(!provider.has_table(tag::GLYF));

    let (num_glyphs, num_h_metrics, _, original_advances) = read_advances(&provider).unwrap();
    println!(
        "source: numGlyphs = {}, numberOfHMetrics = {}, HVAR present = {}, advances = {:?}",
        num_glyphs,
        num_h_metrics,
        provider.has_table(tag::HVAR),
        original_advances
    );

    let mut tables = Vec::new();
    if let Some(k) = k {
        assert!(k >= 1 && k < num_glyphs && k <= num_h_metrics);
        // hmtx: keep the first k long metrics, then only the lsb of the remaining glyphs
        let hmtx = provider.read_table_data(tag::HMTX).unwrap();
        let mut compact = hmtx[..4 * usize::from(k)].to_vec();
        for glyph_id in usize::from(k)..usize::from(num_glyphs) {
            let lsb = if glyph_id < usize::from(num_h_metrics) {
                4 * glyph_id + 2
            } else {
                4 * usize::from(num_h_metrics) + 2 * (glyph_id - usize::from(num_h_metrics))
            };
            compact.extend_from_slice(&hmtx[lsb..lsb + 2]);
        }
        assert_eq!(
            compact.len(),
            4 * usize::from(k) + 2 * usize::from(num_glyphs - k)
        );
        // hhea: numberOfHMetrics is the last field of the 36 byte table
        let mut hhea = provider.read_table_data(tag::HHEA).unwrap().into_owned();
        assert_eq!(hhea.len(), 36);
        hhea[34..36].copy_from_slice(&k.to_be_bytes());
        tables.push((tag::HMTX, compact));
        tables.push((tag::HHEA, hhea));
    }
    let patched = PatchedProvider {
        inner: &provider,
        tables,
        hidden: if hide_hvar {
            vec![tag::HVAR]
        } else {
            Vec::new()
        },
    };
    if hide_hvar {
        assert!(!patched.has_table(tag::HVAR));
        assert_eq!(patched.table_data(tag::HVAR), Ok(None));
        assert!(!patched.table_tags().unwrap().contains(&tag::HVAR));
    } else {
        assert!(patched.has_table(tag::HVAR));
    }

    // The advances of the (patched) source font. With a compact hmtx the glyphs from k on share
    // the advance of glyph k - 1.
    let (_, source_num_h_metrics, source_hmtx_len, source_advances) =
        read_advances(&patched).unwrap();
    println!(
        "patched source: numberOfHMetrics = {}, hmtx = {} bytes, advances = {:?}",
        source_num_h_metrics, source_hmtx_len, source_advances
    );

    let fvar_data = patched.read_table_data(tag::FVAR).unwrap();
    let fvar = ReadScope::new(&fvar_data).read::<FvarTable<'_>>().unwrap();
    let user_tuple = fvar.axes().map(|axis| axis.max_value).collect::<Vec<_>>();
    assert!(fvar
        .axes()
        .zip(user_tuple.iter())
        .any(|(axis, value)| *value != axis.default_value));

    let (instance, _tuple) =
        allsorts::variations::instance(&patched, &user_tuple).expect("unable to instance font");

    // Load the result and read its hmtx using its own maxp and hhea
    let result_file = ReadScope::new(&instance).read::<FontData<'_>>().unwrap();
    let result_provider = result_file.table_provider(0).unwrap();
    assert!(result_provider.has_table(tag::CFF2));
    assert!(!result_provider.has_table(tag::HVAR));
    let res = read_advances(&result_provider);
    println!("instance: {:?}", res);
    (source_advances, res)
}

/// Control: HVAR hidden but hmtx left as is in the source font.
#[test]
fn cff2_without_hvar_full_hmtx() {
    let (source_advances, res) = instance_without_hvar(None);
    let (_, _, _, advances) = res.expect("unable to read hmtx of instance");
    assert_eq!(advances, source_advances);
}

/// HVAR hidden and the source hmtx is compact: numberOfHMetrics = 2 < numGlyphs.
#[test]
fn cff2_without_hvar_compact_hmtx() {
    let (source_advances, res) = instance_without_hvar(Some(2));
    let (num_glyphs, num_h_metrics, hmtx_len, advances) =
        res.expect("unable to read hmtx of instance");
    assert_eq!(
        hmtx_len,
        4 * usize::from(num_h_metrics) + 2 * usize::from(num_glyphs - num_h_metrics)
    );
    assert_eq!(advances, source_advances);
}

/// Control for the other CFF2 arm: HVAR kept and the source hmtx is compact. `apply_hvar` builds
/// an hmtx with a long metric for every glyph, so numberOfHMetrics = numGlyphs is right here.
#[test]
fn cff2_with_hvar_compact_hmtx() {
    let (source_advances, res) = instance_patched(Some(2), false);
    let (num_glyphs, num_h_metrics, hmtx_len, advances) =
        res.expect("unable to read hmtx of instance");
    assert_eq!(num_h_metrics, num_glyphs);
    assert_eq!(hmtx_len, 4 * usize::from(num_glyphs));
    assert_eq!(advances.len(), source_advances.len());
}
