"""Table reading (DESIGN 5E): evaluated statics/consts -> rows; match-tables (SwitchInt) -> maps."""
import re

import sym
from facts import op_local


def static_rows(st):
    """st: entry of tables.statics/consts with bytes+layout of an array type -> list of rows
    (dict field->int for struct elements, int for scalar elements). None if not that shape."""
    lay = st.get("layout")
    hx = st.get("bytes")
    if not lay or hx is None or "array_of" not in lay:
        return None
    data = bytes.fromhex(hx)
    el = lay["array_of"]
    n = lay.get("len")
    size = el["size"]
    if n is None or size * n != len(data):
        return None
    rows = []
    for i in range(n):
        chunk = data[i * size:(i + 1) * size]
        if "fields" in el:
            row = {}
            for f in el["fields"]:
                row[f["name"]] = int.from_bytes(chunk[f["offset"]:f["offset"] + f["size"]], "little", signed=f["ty"].startswith("i"))
            rows.append(row)
        else:
            rows.append(int.from_bytes(chunk, "little", signed=el["ty"].startswith("i")))
    return rows


def tag_str(v):
    return bytes([(v >> 24) & 255, (v >> 16) & 255, (v >> 8) & 255, v & 255]).decode("latin-1")


def match_table(body):
    """A function whose body is one `match scalar { consts => const result, .. }`:
    returns (discriminant term, {value: result term}, otherwise result term) using the SwitchInt at
    the head and the constants assigned to the return place in each arm. Result terms are Prov
    terms of the value assigned to _0 in the arm block (followed through gotos)."""
    prov = sym.Prov(body)
    sw = None
    for bi in body.rpo():
        t = body.term(bi)
        if t["k"] == "switch":
            sw = (bi, t)
            break
    if sw is None:
        return None
    bi, t = sw

    def arm_result(bb):
        # follow straight-line blocks until _0 is assigned
        seen = set()
        while bb not in seen:
            seen.add(bb)
            for s in body.stmts(bb):
                if s["k"] == "assign" and s["p"]["l"] == 0 and not s["p"]["p"]:
                    return prov.rvalue(s["rv"])
            tt = body.term(bb)
            if tt["k"] == "call" and tt["dest"]["l"] == 0 and not tt["dest"]["p"]:
                c = tt["callee"]
                return ("call", c.get("rpath") or c.get("path"), tuple(prov.op(a) for a in tt["args"]), bb, c.get("path"))
            if tt["k"] == "goto":
                bb = tt["target"]
            elif tt["k"] == "switch":
                return ("nested", bb)
            else:
                return None
        return None
    arms = {}
    for v, tgt in t["arms"]:
        arms[v] = arm_result(tgt)
    return prov.op(t["discr"]), arms, arm_result(t["otherwise"]), bi


class TableShape(Exception):
    pass


CONV = re.compile(r"impl std::convert::From<(char|u8|u16|u32)> for (u16|u32|u64|usize|i32|i64)>::from$")


def scalar_fn(body):
    """Reads a function of one scalar argument whose body consists only of comparisons of the
    argument with constants, switches on the argument, and constant / identity-cast results wrapped
    in Option. Returns (evaluate(v) -> ('some', x) | ('none',), breakpoints). Raises TableShape
    when the body is not of this shape (fail closed)."""
    prov = sym.Prov(body)
    if body.arg_count != 1:
        raise TableShape("expected exactly one argument")

    def is_input(t):
        t = sym.strip(t)
        while t[0] == "cast" and t[1] == "IntToInt":
            t = sym.strip(t[4])
        return t[0] == "arg" and t[1] == 1

    def const_of(t):
        t = sym.strip(t)
        while t[0] == "cast" and t[1] == "IntToInt":
            t = sym.strip(t[4])
        if t[0] == "c" and t[1] is not None:
            return t[1]
        return None
    WIDTH = {"u8": 8, "u16": 16, "u32": 32, "u64": 64, "usize": 64, "char": 32, "i8": 8, "i16": 16, "i32": 32, "i64": 64, "isize": 64}

    def evaluable(t):
        t = sym.strip(t)
        k = t[0]
        if k == "arg":
            return t[1] == 1
        if k == "c":
            return isinstance(t[1], int) or (isinstance(t[1], str) and len(t[1]) == 1)
        if k == "cast":
            return t[1] == "IntToInt" and evaluable(t[4])
        if k == "bin":
            return t[1].replace("WithOverflow", "") in ("Add", "Sub", "BitAnd", "BitOr", "BitXor", "Shl", "Shr", "Rem", "Div", "Mul") and evaluable(t[2]) and evaluable(t[3])
        if k == "un":
            return t[1] == "Not" and evaluable(t[2])
        if k == "field" and isinstance(t[2], int) and t[2] == 0:
            return evaluable(t[1])       # the value half of a checked (value, overflowed) pair
        if k == "call" and CONV.search(t[1] or "") and len(t[2]) == 1:
            return evaluable(t[2][0])    # lossless widening conversion (u32::from(c))
        return False

    def ev(t, v, bits=32):
        t = sym.strip(t)
        k = t[0]
        if k == "arg":
            return v
        if k == "c":
            return ord(t[1]) if isinstance(t[1], str) else int(t[1])
        if k == "cast":
            x = ev(t[4], v, WIDTH.get(t[2], bits))
            w = WIDTH.get(t[3], 64)
            x &= (1 << w) - 1
            if str(t[3]).startswith("i") and x >> (w - 1):
                x -= 1 << w
            return x
        if k == "field":
            return ev(t[1], v, bits)
        if k == "call":
            return ev(t[2][0], v, bits)
        if k == "un":
            return ~ev(t[2], v, bits) & ((1 << bits) - 1)
        a, c = ev(t[2], v, bits), ev(t[3], v, bits)
        op = t[1].replace("WithOverflow", "")
        if op in ("Div", "Rem") and c == 0:
            raise TableShape("division by zero while evaluating")
        r = {"Add": a + c, "Sub": a - c, "Mul": a * c, "BitAnd": a & c, "BitOr": a | c, "BitXor": a ^ c, "Shl": a << (c & 63), "Shr": a >> (c & 63),
             "Div": a // c if c else 0, "Rem": a % c if c else 0}[op]
        if r < 0 or r >> bits:
            raise TableShape("arithmetic leaves the %d-bit range while evaluating (the function would panic or wrap)" % bits)
        return r
    def flag_of(t):
        """(local, negated) when t is a (possibly negated) read of a bool variable with several definitions"""
        t = sym.strip(t)
        neg = False
        while t[0] == "un" and t[1] == "Not":
            neg = not neg
            t = sym.strip(t[2])
        if t[0] == "local" and body.local_ty(t[1]) == "bool" and len(body.defs().get(t[1], [])) > 1:
            return t[1], neg
        return None
    breakpoints = set()
    nodes = {}
    flag_sets = {}      # block -> [(bool local, constant)]: `known = true` in one arm of a matches!() / short-circuit expression
    for bi in body.rpo():
        t = body.term(bi)
        res = None
        for s in body.stmts(bi):
            if s["k"] == "assign" and not s["p"]["p"] and s["p"]["l"] != 0 and body.local_ty(s["p"]["l"]) == "bool" \
                    and len(body.defs().get(s["p"]["l"], [])) > 1:
                rv = s["rv"]
                if rv["k"] == "use" and rv["op"]["k"] == "const" and rv["op"].get("val") in (0, 1, True, False):
                    flag_sets.setdefault(bi, []).append((s["p"]["l"], bool(rv["op"]["val"])))
                elif rv["k"] == "use" and rv["op"]["k"] in ("copy", "move") and not rv["op"]["p"]["p"] and body.local_ty(rv["op"]["p"]["l"]) == "bool":
                    flag_sets.setdefault(bi, []).append((s["p"]["l"], ("flag", rv["op"]["p"]["l"])))
                else:
                    raise TableShape("flag in bb%d is assigned something other than a constant or another flag" % bi)
            if s["k"] == "assign" and s["p"]["l"] == 0 and not s["p"]["p"]:
                rv = s["rv"]
                if rv["k"] == "use" and rv["op"]["k"] in ("copy", "move") and not rv["op"]["p"]["p"] and body.local_ty(rv["op"]["p"]["l"]) == "bool" \
                        and len(body.defs().get(rv["op"]["p"]["l"], [])) > 1:
                    res = ("flag", rv["op"]["p"]["l"])
                    continue
                if rv["k"] == "agg" and rv.get("vname") == "None":
                    res = ("none",)
                elif rv["k"] == "agg" and rv.get("vname") == "Some":
                    ft = prov.op(rv["fields"][0])
                    if is_input(ft):
                        res = ("some-id",)
                    else:
                        c = const_of(ft)
                        if c is None:
                            raise TableShape("result in bb%d is neither a constant nor the argument: %s" % (bi, sym.show(ft)))
                        res = ("some", c)
                elif rv["k"] == "use" and const_of(prov.op(rv["op"])) is not None:
                    res = ("some", const_of(prov.op(rv["op"])))
                else:
                    raise TableShape("unrecognised result in bb%d" % bi)
        if t["k"] == "switch":
            dt = prov.op(t["discr"])
            if is_input(dt):
                for v, _ in t["arms"]:
                    breakpoints.add(v)
                nodes[bi] = ("switch-input", {v: tg for v, tg in t["arms"]}, t["otherwise"], res)
            elif t.get("dty") != "bool" and evaluable(dt):
                for v, _ in t["arms"]:
                    breakpoints.add(v)
                nodes[bi] = ("switch-expr", dt, {v: tg for v, tg in t["arms"]}, t["otherwise"], res)
            elif t.get("dty") == "bool" and flag_of(dt) is not None:
                fl, neg = flag_of(dt)
                false_t = [tg for v, tg in t["arms"] if v == 0]
                if len(t["arms"]) != 1 or not false_t:
                    raise TableShape("bool switch with unexpected arms in bb%d" % bi)
                tt, ff = t["otherwise"], false_t[0]
                if neg:
                    tt, ff = ff, tt
                nodes[bi] = ("flag", fl, tt, ff, res)
            else:
                d = sym.strip(dt)
                if d[0] == "bin" and d[1] in ("Lt", "Le", "Gt", "Ge", "Eq", "Ne"):
                    a, b = d[2], d[3]
                    if is_input(a) and const_of(b) is not None:
                        op, k = d[1], const_of(b)
                    elif is_input(b) and const_of(a) is not None:
                        from guards import CMP_FLIP
                        op, k = CMP_FLIP[d[1]], const_of(a)
                    else:
                        # a comparison of two expressions over the argument (`c & !0x80 == k`, `c - base < n`): evaluated numerically
                        if not (evaluable(a) and evaluable(b)):
                            raise TableShape("comparison in bb%d does not compare the argument with a constant: %s" % (bi, sym.show(d)))
                        false_t = [tg for v, tg in t["arms"] if v == 0]
                        if len(t["arms"]) != 1 or not false_t:
                            raise TableShape("bool switch with unexpected arms in bb%d" % bi)
                        for x in sym.walk(d):
                            if x[0] == "c" and isinstance(x[1], int) and not isinstance(x[1], bool):
                                breakpoints.add(x[1])
                        nodes[bi] = ("cmp2", d[1], a, b, t["otherwise"], false_t[0], res)
                        continue
                    breakpoints.add(k)
                    false_t = [tg for v, tg in t["arms"] if v == 0]
                    if len(t["arms"]) != 1 or not false_t:
                        raise TableShape("bool switch with unexpected arms in bb%d" % bi)
                    nodes[bi] = ("cmp", op, k, t["otherwise"], false_t[0], res)
                else:
                    raise TableShape("switch in bb%d on %s" % (bi, sym.show(d)))
        elif t["k"] == "goto":
            nodes[bi] = ("goto", t["target"], res)
        elif t["k"] == "call" and CONV.search(t["callee"].get("rpath") or t["callee"].get("path") or "") and t.get("target") is not None:
            nodes[bi] = ("goto", t["target"], res)
        elif t["k"] == "assert" and t.get("target") is not None:
            # overflow / bounds assertion of an arithmetic step: the numeric evaluation reports a value that leaves its range
            nodes[bi] = ("goto", t["target"], res)
        elif t["k"] == "return":
            nodes[bi] = ("return", res)
        else:
            raise TableShape("terminator %s in bb%d" % (t["k"], bi))

    def evaluate(v):
        bb = 0
        result = None
        steps = 0
        flags = {}
        while True:
            steps += 1
            if steps > 10000:
                raise TableShape("loop")
            for fl, val in flag_sets.get(bb, ()):
                if isinstance(val, tuple):
                    if val[1] not in flags:
                        raise TableShape("flag read before it is set")
                    val = flags[val[1]]
                flags[fl] = val
            n = nodes[bb]
            r = n[-1]
            if r is not None:
                if r[0] == "flag":
                    if r[1] not in flags:
                        raise TableShape("flag read before it is set")
                    result = ("some", flags[r[1]])
                else:
                    result = ("some", v) if r[0] == "some-id" else r
            if n[0] == "return":
                if result is None:
                    raise TableShape("return without result")
                return result
            if n[0] == "goto":
                bb = n[1]
            elif n[0] == "flag":
                if n[1] not in flags:
                    raise TableShape("flag read before it is set")
                bb = n[2] if flags[n[1]] else n[3]
            elif n[0] == "switch-input":
                bb = n[1].get(v, n[2])
            elif n[0] == "switch-expr":
                bb = n[2].get(ev(n[1], v), n[3])
            elif n[0] == "cmp2":
                _, op, ta, tc, tb, fb, _r = n
                x, k = ev(ta, v), ev(tc, v)
                ok = {"Lt": x < k, "Le": x <= k, "Gt": x > k, "Ge": x >= k, "Eq": x == k, "Ne": x != k}[op]
                bb = tb if ok else fb
            else:
                _, op, k, tb, fb, _r = n
                ok = {"Lt": v < k, "Le": v <= k, "Gt": v > k, "Ge": v >= k, "Eq": v == k, "Ne": v != k}[op]
                bb = tb if ok else fb
    return evaluate, breakpoints
