"""Rule "binary search over sorted data": `binary_search*` / `partition_point` return a meaningful position only when the receiver is
ordered by the key that is searched for. The specification orders some font tables (Coverage glyph arrays, kern pairs, MVAR value
records); a collection the library builds itself is ordered only if it was sorted by that key since its last change. The sites are few,
so each is an audited ledger entry (ledger/bsearch.jsonl: which ordering, who guarantees it); a binary search that is not in the ledger -
a linear `position` / `find` turned into a binary search as an optimisation - is reported until it has been audited."""


SEARCHES = ("::binary_search", "::binary_search_by", "::binary_search_by_key", "::partition_point")


def rule_bsearch(run, fx, rule, select=None, floors=True, floor_n=0):
    run.rule(rule, "every binary search (binary_search, binary_search_by, binary_search_by_key, partition_point) is over data that is ordered by the searched key: "
                   "a font table the specification orders, or a collection sorted by that key since its last change - each site audited in "
                   "ledger/bsearch.jsonl; a site that is not in the ledger is reported")
    n = 0
    for b in fx.bodies:
        if b.exp or (select and not select(b)):
            continue
        for bi, t in b.calls():
            p = str(t["callee"].get("path") or "")
            if not p.endswith(SEARCHES):
                continue
            n += 1
            # the key names the function, not the variant of the search: binary_search and binary_search_by(|x| x.cmp(&k)) are one site
            key = "bsearch|%s" % b.root
            run.fail(rule, key, "%s calls %s: the receiver must be ordered by the searched key (a sorted font table per the specification, or sorted by that key "
                     "since it was last changed); this site has not been audited" % (b.path, p.split("::")[-1]), b.loc(t), ledger="bsearch")
    if floors and floor_n:
        run.floor(rule, "binary search sites", n, floor_n)
    return n
