//! A simple glyph is written as deltas between consecutive points, each an int16. Two consecutive points that are further
//! apart than 32767 units (each coordinate is a valid i16; such glyphs arise when large gvar deltas saturate the coordinates
//! at instancing time, or are built through the public API) have no int16 delta: the writer must refuse the glyph with an
//! error, not panic ("attempt to subtract with overflow") and not write a wrapped delta.
use allsorts::binary::write::{WriteBinary, WriteBuffer};
use allsorts::tables::glyf::{BoundingBox, Point, SimpleGlyph, SimpleGlyphFlag};

fn glyph(points: &[(i16, i16)]) -> SimpleGlyph<'static> {
    SimpleGlyph {
        bounding_box: BoundingBox {
            x_min: points.iter().map(|p| p.0).min().unwrap(),
            x_max: points.iter().map(|p| p.0).max().unwrap(),
            y_min: points.iter().map(|p| p.1).min().unwrap(),
            y_max: points.iter().map(|p| p.1).max().unwrap(),
        },
        end_pts_of_contours: vec![points.len() as u16 - 1],
        instructions: &[],
        coordinates: points
            .iter()
            .map(|&(x, y)| (SimpleGlyphFlag::ON_CURVE_POINT, Point(x, y)))
            .collect(),
        phantom_points: None,
    }
}

#[test]
fn x_delta_does_not_fit() {
    let mut buf = WriteBuffer::new();
    let res = SimpleGlyph::write(&mut buf, glyph(&[(-20000, 0), (20000, 0), (0, 100)]));
    assert!(res.is_err(), "a delta of 40000 units was written");
}

#[test]
fn y_delta_does_not_fit() {
    let mut buf = WriteBuffer::new();
    let res = SimpleGlyph::write(&mut buf, glyph(&[(0, 32767), (0, -32768), (100, 0)]));
    assert!(res.is_err(), "a delta of -65535 units was written");
}

#[test]
fn deltas_that_fit_are_written() {
    let mut buf = WriteBuffer::new();
    SimpleGlyph::write(&mut buf, glyph(&[(-16000, -16000), (16767, 16767), (0, 0)])).expect("fits");
}
