//! Reproduction: when a variable font is instanced the bounding box of a composite glyph is
//! recomputed from its components. For a component whose ARGS_ARE_XY_VALUES flag is clear the
//! two arguments are point numbers (anchor points), not an x/y offset. The outline code ignores
//! them (they are unsupported, the component is placed with a zero offset) but the bounding box
//! calculation used them as an x/y offset, so the box written to the instanced font did not
//! match the outline of the glyph.

use std::borrow::Cow;

use allsorts::binary::read::ReadScope;
use allsorts::error::ParseError;
use allsorts::font_data::FontData;
use allsorts::outline::{OutlineBuilder, OutlineSink};
use allsorts::pathfinder_geometry::line_segment::LineSegment2F;
use allsorts::pathfinder_geometry::vector::Vector2F;
use allsorts::tables::glyf::{BoundingBox, CompositeGlyphArgument, GlyfTable, Glyph};
use allsorts::tables::loca::LocaTable;
use allsorts::tables::{Fixed, FontTableProvider, HeadTable, MaxpTable};
use allsorts::tag;

const FONT: &str = "tests/fonts/opentype/NotoSans-VF.abc.ttf";

/// The glyph that is turned into a composite glyph ('c').
const COMPOSITE: u16 = 3;
/// The simple glyph that the composite glyph refers to ('a').
const COMPONENT: u16 = 1;

const ARG_1_AND_2_ARE_WORDS: u16 = 0x0001;
const ARGS_ARE_XY_VALUES: u16 = 0x0002;

fn be16(data: &[u8], off: usize) -> usize {
    usize::from(u16::from_be_bytes([data[off], data[off + 1]]))
}

/// A `FontTableProvider` that overrides some tables of another provider.
struct PatchedProvider<'a, P> {
    inner: &'a P,
    tables: Vec<(u32, Vec<u8>)>,
}

impl<'a, P: FontTableProvider> FontTableProvider for PatchedProvider<'a, P> {
    fn table_data(&self, tag: u32) -> Result<Option<Cow<'_, [u8]>>, ParseError> {
        match self.tables.iter().find(|(t, _)| *t == tag) {
            Some((_, data)) => Ok(Some(Cow::Borrowed(data.as_slice()))),
            None => self.inner.table_data(tag),
        }
    }

    fn has_table(&self, tag: u32) -> bool {
        self.inner.has_table(tag)
    }

    fn table_tags(&self) -> Option<Vec<u32>> {
        self.inner.table_tags()
    }
}

/// Collects the extent of all the points an outline is made of.
#[derive(Default)]
struct Extent {
    bounds: Option<(f32, f32, f32, f32)>,
}

impl Extent {
    fn add(&mut self, point: Vector2F) {
        let (x, y) = (point.x(), point.y());
        self.bounds = Some(match self.bounds {
            Some((x_min, y_min, x_max, y_max)) => {
                (x_min.min(x), y_min.min(y), x_max.max(x), y_max.max(y))
            }
            None => (x, y, x, y),
        });
    }

    fn bounding_box(&self) -> BoundingBox {
        let (x_min, y_min, x_max, y_max) = self.bounds.expect("outline is empty");
        BoundingBox {
            x_min: x_min.floor() as i16,
            y_min: y_min.floor() as i16,
            x_max: x_max.ceil() as i16,
            y_max: y_max.ceil() as i16,
        }
    }
}

impl OutlineSink for Extent {
    fn move_to(&mut self, to: Vector2F) {
        self.add(to);
    }

    fn line_to(&mut self, to: Vector2F) {
        self.add(to);
    }

    fn quadratic_curve_to(&mut self, control: Vector2F, to: Vector2F) {
        // Like the `glyf` table the control points are included
        self.add(control);
        self.add(to);
    }

    fn cubic_curve_to(&mut self, control: LineSegment2F, to: Vector2F) {
        self.add(control.from());
        self.add(control.to());
        self.add(to);
    }

    fn close(&mut self) {}
}

struct Instanced {
    /// Bounding box of the composite glyph as stored in the `glyf` table of the instanced font
    composite: BoundingBox,
    /// Bounding box of the (simple) component glyph as stored in the instanced font
    component: BoundingBox,
    /// Extent of the outline of the composite glyph as produced by `OutlineBuilder::visit`
    outline: BoundingBox,
    /// flags, argument1 and argument2 of the component in the instanced font
    flags: u16,
    arguments: (CompositeGlyphArgument, CompositeGlyphArgument),
}

/// Replace glyph `COMPOSITE` of the variable font with a composite glyph that has one component:
/// glyph `COMPONENT` with `flags` and the arguments `arg1`, `arg2`. Then instance the font at
/// wght=900 and read back the `glyf` table of the result.
fn instance_with_component(flags: u16, arg1: u16, arg2: u16) -> Instanced {
    assert_ne!(flags & ARG_1_AND_2_ARE_WORDS, 0);
    let buffer = std::fs::read(FONT).unwrap();
    let font_file = ReadScope::new(&buffer).read::<FontData<'_>>().unwrap();
    let provider = font_file.table_provider(0).unwrap();

    // glyf: overwrite glyph 3 (short loca offsets). The composite glyph is shorter than the
    // simple glyph it replaces; the remainder is zeroed and not read.
    let loca = provider.read_table_data(tag::LOCA).unwrap();
    let mut glyf = provider.read_table_data(tag::GLYF).unwrap().into_owned();
    let start = be16(&loca, 2 * usize::from(COMPOSITE)) * 2;
    let end = be16(&loca, 2 * usize::from(COMPOSITE + 1)) * 2;
    let mut glyph = Vec::new();
    glyph.extend_from_slice(&(-1i16).to_be_bytes()); // numberOfContours: composite
    glyph.extend_from_slice(&[0; 8]); // bounding box: recalculated when instancing
    glyph.extend_from_slice(&flags.to_be_bytes()); // no MORE_COMPONENTS, no scale
    glyph.extend_from_slice(&COMPONENT.to_be_bytes());
    glyph.extend_from_slice(&arg1.to_be_bytes());
    glyph.extend_from_slice(&arg2.to_be_bytes());
    assert!(glyph.len() <= end - start);
    glyph.resize(end - start, 0);
    glyf[start..end].copy_from_slice(&glyph);

    // gvar: the variation data of glyph 3 is for the simple glyph that was there. Make it empty
    // (offsets[3] == offsets[4]), which is how a glyph without variation data is represented.
    let mut gvar = provider.read_table_data(tag::GVAR).unwrap().into_owned();
    let axis_count = be16(&gvar, 4);
    assert_eq!(be16(&gvar, 12), 4, "expected four glyphs");
    assert_eq!(be16(&gvar, 14) & 1, 0, "expected short gvar offsets");
    let offsets = 20;
    let offset = offsets + 2 * usize::from(COMPOSITE);
    gvar.copy_within(offset..offset + 2, offset + 2);

    let patched = PatchedProvider {
        inner: &provider,
        tables: vec![(tag::GLYF, glyf), (tag::GVAR, gvar)],
    };
    let mut user_tuple = vec![Fixed::from(900)];
    user_tuple.resize(axis_count, Fixed::from(100));
    let (instanced, _tuple) =
        allsorts::variations::instance(&patched, &user_tuple).expect("unable to instance font");

    // Read the glyf table of the instanced font
    let font_file = ReadScope::new(&instanced).read::<FontData<'_>>().unwrap();
    let provider = font_file.table_provider(0).unwrap();
    let head = ReadScope::new(&provider.read_table_data(tag::HEAD).unwrap())
        .read::<HeadTable>()
        .unwrap();
    let maxp = ReadScope::new(&provider.read_table_data(tag::MAXP).unwrap())
        .read::<MaxpTable>()
        .unwrap();
    let loca_data = provider.read_table_data(tag::LOCA).unwrap();
    let loca = ReadScope::new(&loca_data)
        .read_dep::<LocaTable<'_>>((usize::from(maxp.num_glyphs), head.index_to_loc_format))
        .unwrap();
    let glyf_data = provider.read_table_data(tag::GLYF).unwrap();
    let mut glyf = ReadScope::new(&glyf_data)
        .read_dep::<GlyfTable<'_>>(&loca)
        .unwrap();

    let component = match glyf.get_parsed_glyph(COMPONENT).unwrap() {
        Glyph::Simple(simple) => simple.bounding_box,
        _ => panic!("expected glyph {} to be a simple glyph", COMPONENT),
    };
    let (composite, flags, arguments) = match glyf.get_parsed_glyph(COMPOSITE).unwrap() {
        Glyph::Composite(composite) => {
            assert_eq!(composite.glyphs.len(), 1);
            let child = &composite.glyphs[0];
            assert_eq!(child.glyph_index, COMPONENT);
            assert!(child.scale.is_none());
            (
                composite.bounding_box,
                child.flags.bits(),
                (child.argument1, child.argument2),
            )
        }
        _ => panic!("expected glyph {} to be a composite glyph", COMPOSITE),
    };
    let mut extent = Extent::default();
    glyf.visit(COMPOSITE, &mut extent).unwrap();

    Instanced {
        composite,
        component,
        outline: extent.bounding_box(),
        flags,
        arguments,
    }
}

/// Control: with ARGS_ARE_XY_VALUES set the arguments are an offset. The outline of the composite
/// glyph and its bounding box are both the component moved by (3, 5).
#[test]
fn args_are_xy_values() {
    let res = instance_with_component(ARG_1_AND_2_ARE_WORDS | ARGS_ARE_XY_VALUES, 3, 5);
    println!(
        "xy values:     composite {:?}\n               component {:?}\n               outline   {:?}",
        res.composite, res.component, res.outline
    );
    assert_eq!(
        res.arguments,
        (
            CompositeGlyphArgument::I16(3),
            CompositeGlyphArgument::I16(5)
        )
    );
    let moved = BoundingBox {
        x_min: res.component.x_min + 3,
        x_max: res.component.x_max + 3,
        y_min: res.component.y_min + 5,
        y_max: res.component.y_max + 5,
    };
    assert_eq!(res.outline, moved);
    assert_eq!(res.composite, moved);
}

/// ARGS_ARE_XY_VALUES clear: the arguments are the point numbers 3 and 5. The library does not
/// support matching points and places the component with a zero offset, so the outline of the
/// composite glyph is the outline of the component and the bounding box has to be the bounding
/// box of the component.
#[test]
fn args_are_point_numbers() {
    let res = instance_with_component(ARG_1_AND_2_ARE_WORDS, 3, 5);
    println!(
        "point numbers: composite {:?}\n               component {:?}\n               outline   {:?}",
        res.composite, res.component, res.outline
    );
    // The component is written back as it was: point numbers
    assert_eq!(res.flags & ARGS_ARE_XY_VALUES, 0);
    assert_eq!(
        res.arguments,
        (
            CompositeGlyphArgument::U16(3),
            CompositeGlyphArgument::U16(5)
        )
    );
    // The outline of the composite glyph is the outline of the component, not moved
    assert_eq!(res.outline, res.component);
    // ... and so is its bounding box
    assert_eq!(
        res.composite, res.outline,
        "bounding box of the composite glyph does not match its outline"
    );
}
