"""compile_fail witnesses (thorough tier): run the doctests of engine/witness on the nightly toolchain
and record one obligation per witness (the compile_fail example AND its compiling twin must both pass)."""
import os
import re
import shutil
import subprocess

import core
import extract

WITNESSES = {
    "W1": ("C14", "ReadCtxt cannot be built by literal downstream (E0451)"),
    "W2": ("C14", "ReadCtxt::new is private (E0624)"),
    "W3": ("C14", "read_unchecked_* kernels are private (E0624)"),
    "W4": ("C14", "ReadUnchecked::read_unchecked needs unsafe (E0133)"),
    "W5": ("C14", "ReadArray.stride is private (E0616)"),
    "W6": ("C13", "OwnedTuple cannot be constructed downstream (E0423)"),
    "W7": ("C13", "Tuple::from_raw_parts needs unsafe (E0133)"),
    "W8": ("C08", "MappingsToKeep is not nameable downstream (E0603)"),
}


def run_witnesses(run, pid):
    rule = "W"
    mine = {w: d for w, (p, d) in WITNESSES.items() if p == pid}
    if not mine:
        return
    run.rule(rule, "compile_fail witnesses: each listed misuse of the public surface fails to compile with the stated error code on the current "
                   "tree, and its twin (same code without the offending line) compiles")
    wdir = os.path.join(core.VERIF, "engine", "witness")
    lock = os.path.join(extract.REPO, "Cargo.lock")
    if os.path.exists(lock):
        shutil.copy(lock, os.path.join(wdir, "Cargo.lock"))
    # the witness crate path-depends on /repo; honour VERIF_REPO by rewriting the manifest in a scratch copy
    env = extract.base_env()
    env["CARGO_TARGET_DIR"] = os.path.join(extract.CACHE, "target-witness")
    manifest = os.path.join(wdir, "Cargo.toml")
    src = open(manifest).read()
    if extract.REPO != "/repo":
        open(manifest, "w").write(src.replace('path = "/repo"', 'path = "%s"' % extract.REPO))
    try:
        r = subprocess.run(["cargo", "+nightly", "test", "--doc", "--offline"], cwd=wdir, env=env, stdout=subprocess.PIPE, stderr=subprocess.STDOUT, text=True)
    finally:
        if extract.REPO != "/repo":
            open(manifest, "w").write(src)
    res = {}
    for m in re.finditer(r"^test src/lib\.rs - (W\d+) \(line \d+\)( - compile fail)? \.\.\. (\w+)", r.stdout, re.M):
        res.setdefault(m.group(1), []).append((bool(m.group(2)), m.group(3)))
    for w, desc in sorted(mine.items()):
        got = res.get(w, [])
        cf = [x for x in got if x[0]]
        tw = [x for x in got if not x[0]]
        if cf and tw and all(x[1] == "ok" for x in got):
            run.ok(rule, "%s: %s — compile_fail example rejected with the stated code, twin compiles" % (w, desc))
        else:
            run.fail(rule, "witness:%s" % w, "%s: %s — witness or twin did not behave as expected (%s)" % (w, desc, got or "not run: " + r.stdout[-300:]))
