"""C14 — the binary reader never reads outside its buffer and decodes exactly.

Obligations R14-U (unsafe confinement), R14-P (primitive kernels), R14-K (guard kernels),
R14-D (availability evidence dominates every unchecked read), R14-I (representation invariants),
R14-S (SIZE == bytes consumed), R14-G (index guards), R14-O (length arithmetic)."""
import re

import guards
import sym
from facts import callee_is, op_local, place_fields, place_str

LEVEL = "proof"
EXPLANATION = (
    "Memory safety and exact decoding of the binary reader reduced to a finite set of structural obligations "
    "over src/binary/read.rs, each decided on MIR: all hand-written unsafe is confined to the reader module (R14-U); "
    "each read_unchecked_* kernel reads exactly bytes offset..offset+N-1 of the scope, advances the cursor by N and "
    "assembles them big-endian (R14-P, symbolic execution of the straight-line kernel body); check_avail and "
    "offset_length return Ok only under a checked-add / slice-length comparison (R14-K); every call of an unsafe "
    "read_unchecked from safe code is dominated by availability evidence for at least the callee's size on the same "
    "cursor with no intervening cursor advance (R14-D); the fields the evidence relies on are private and written only "
    "by the audited constructors/kernels (R14-I); for every concrete type X instantiated anywhere in the crate the "
    "evaluated <X as ReadUnchecked>::SIZE equals the bytes its read_unchecked consumes (R14-S); indexed access is "
    "guarded by index < length (R14-G); length*size products in the public reader API are overflow-checked (R14-O)."
)
NOT_DECIDED = (
    "that iteration/binary_search return elements 'in order' beyond the index arithmetic shape; behaviour of "
    "third-party Cow/Vec; absence of arithmetic-overflow panics inside the reader other than R14-O's products."
)
ASSUMPTIONS = [
    "slice::get_unchecked(i) is sound iff i < len (std contract)",
    "a fresh ReadCtxt has offset 0 (checked: only ReadCtxt::new builds one, with the literal 0)",
]

READ_RS = "src/binary/read.rs"
PRIMS = {  # type -> kernel
    "binary::U8": "read_unchecked_u8", "binary::I8": "read_unchecked_i8",
    "binary::U16Be": "read_unchecked_u16be", "binary::I16Be": "read_unchecked_i16be",
    "binary::U24Be": "read_unchecked_u24be", "binary::U32Be": "read_unchecked_u32be",
    "binary::I32Be": "read_unchecked_i32be", "binary::U64Be": "read_unchecked_u64be",
    "binary::I64Be": "read_unchecked_i64be",
}
AUDITED_UNSAFE_FN = {
    "tables::variable_fonts::fvar::Tuple::<'a>::from_raw_parts": "pub unsafe fn; caller promises validity; no in-crate caller",
}
AUDITED_UNSAFE_BLOCK = {
    "big5::big5_to_unicode": "from_utf8_unchecked on encoding_rs encoder output (always valid UTF-8 by its contract)",
}
EXTERNAL_UNSAFE_MACROS = {"self_referencing", "PartialEq", "Ord", "PartialOrd", "Hash", "Clone", "Debug", "bitflags", "__impl_bitflags", None}


def cfg(fx):
    """anchors; the planted crate mirrors the same names"""
    return {"file": READ_RS, "ctxt": "binary::read::ReadCtxt"}


# --------------------------------------------------------------------------------------------
def r14_u(run, fx, floors):
    run.rule("R14-U", "every hand-written unsafe fn/block/impl/trait lies in src/binary/read.rs, except the audited table")
    n_block = n_fn = 0
    for u in fx.tables["unsafe_blocks"]:
        hand = (not u["exp"]) or u["macro_local"]
        if not hand:
            if u.get("macro") not in EXTERNAL_UNSAFE_MACROS and u["src"] == "UserProvided":
                run.fail("R14-U", "unsafe-block-from-macro:%s:%s" % (u["macro"], u["owner"]),
                         "unsafe block expanded from a macro that is not in the recognised external set", "%s:%s" % (u["file"], u["line"]))
            continue
        if u["file"] == READ_RS:
            n_block += 1
            run.ok("R14-U", "unsafe block in %s (%s)" % (u["owner"], READ_RS))
        elif u["owner"] in AUDITED_UNSAFE_BLOCK:
            run.ok("R14-U", "audited unsafe block in %s: %s" % (u["owner"], AUDITED_UNSAFE_BLOCK[u["owner"]]))
        else:
            run.fail("R14-U", "unsafe-block:" + u["owner"], "hand-written unsafe block outside the reader module", "%s:%s" % (u["file"], u["line"]))
    for b in fx.bodies:
        if not b.j.get("unsafe") or b.exp:
            continue
        if b.file == READ_RS:
            n_fn += 1
            run.ok("R14-U")
        elif b.path in AUDITED_UNSAFE_FN:
            run.ok("R14-U", "audited unsafe fn %s: %s" % (b.path, AUDITED_UNSAFE_FN[b.path]))
            # no in-crate caller
            for c in fx.bodies:
                for bi, t in c.calls():
                    if t["callee"].get("path") == b.path:
                        run.fail("R14-U", "caller-of:%s:%s" % (b.path, c.root), "audited unsafe fn gained an in-crate caller", c.loc(t))
        else:
            run.fail("R14-U", "unsafe-fn:" + b.path, "hand-written unsafe fn outside the reader module", "%s:%s" % (b.file, b.line))
    for f in fx.tables["fns_nomir"]:
        if f["unsafe"] and f["file"] != READ_RS:
            run.fail("R14-U", "unsafe-fn-decl:" + f["path"], "unsafe fn declaration outside the reader module", "%s:%s" % (f["file"], f["line"]))
    for i in fx.tables["impls"]:
        if i.get("unsafe") and not i["exp"]:
            run.fail("R14-U", "unsafe-impl:%s for %s" % (i.get("trait"), i["self"]), "hand-written unsafe impl", "%s:%s" % (i["file"], i["line"]))
    for t in fx.tables["traits"]:
        if t["unsafe"]:
            run.fail("R14-U", "unsafe-trait:" + t["path"], "unsafe trait", "%s:%s" % (t["file"], t["line"]))
    if floors:
        run.floor("R14-U", "unsafe blocks in read.rs", n_block, 12)
        run.floor("R14-U", "unsafe fns in read.rs", n_fn, 22)
    return n_block, n_fn


# --------------------------------------------------------------------------------------------
def byteset(t, kernels):
    """normalise a result term into {(byte_index, shift)}; returns None when not of the
    zero-extend / shl-const / bitor shape. Byte index k means the byte at original cursor + k."""
    t = sym.strip(t)
    k = t[0]
    if k == "bin" and t[1] == "BitOr":
        a = byteset(t[2], kernels)
        b = byteset(t[3], kernels)
        if a is None or b is None:
            return None
        return a | b
    if k == "bin" and t[1] == "Shl":
        a = byteset(t[2], kernels)
        c = t[3]
        if a is None or c[0] != "c" or c[1] is None:
            return None
        return {(i, s + c[1]) for i, s in a}
    if k == "cast" and t[1] == "IntToInt":
        # zero extension or same-width sign reinterpretation only
        fw, tw = int_width(t[2]), int_width(t[3])
        if fw is None or tw is None or tw < fw:
            return None
        if tw > fw and t[2].startswith("i"):
            return None
        return byteset(t[4], kernels)
    if k == "call" and t[4] and t[4].endswith("std::convert::From::from"):
        return byteset(t[2][0], kernels)
    if k == "byte":
        return {(t[1], 0)}
    if k == "kern":
        # result of a verified kernel called at cursor+base: bytes base..base+n-1 big-endian
        n = t[2]
        return {(t[1] + i, 8 * (n - 1 - i)) for i in range(n)}
    if k == "deref":
        return byteset(t[1], kernels)
    return None


def int_width(ty):
    m = re.match(r"^[ui](8|16|32|64|128)$", ty)
    if m:
        return int(m.group(1))
    if ty in ("usize", "isize"):
        return 64
    return None


def offset_delta(t):
    """term -> k when t == init((*self).offset) + k (k constant), else None"""
    t = sym.strip(t)
    if t[0] == "init" and t[1] == "(*self).offset":
        return 0
    if t[0] == "bin" and t[1] == "Add":
        a = offset_delta(t[2])
        c = t[3]
        if a is not None and c[0] == "c" and c[1] is not None:
            return a + c[1]
    return None


def r14_p(run, fx):
    """primitive kernels: returns {kernel name: N}"""
    run.rule("R14-P", "each read_unchecked_* kernel reads exactly bytes cursor..cursor+N-1 of self.scope.data via get_unchecked, "
                      "writes the cursor once (+= N) and returns the big-endian composition; N == SIZE of the matching impl")
    kernels = {}
    order = ["read_unchecked_u8", "read_unchecked_u16be", "read_unchecked_u24be", "read_unchecked_u32be",
             "read_unchecked_i8", "read_unchecked_i16be", "read_unchecked_i32be", "read_unchecked_u64be", "read_unchecked_i64be"]
    for name in order:
        b = fx.body("binary::read::ReadCtxt::<'a>::" + name)
        if b is None:
            run.anchor_missing("R14-P", "kernel " + name)
            continue
        state = {"adv": 0}

        def hook(sl, t, cname, args, state=state):
            # nested verified kernel on self
            for kn, n in kernels.items():
                if cname.endswith("::" + kn):
                    recv = sym.strip(args[0]) if args else None
                    if recv is not None and "self" in sym.show(recv):
                        base = state["adv"]
                        state["adv"] += n
                        return ("kern", base, n)
            if cname.endswith("::get_unchecked") and len(args) == 2:
                sl_t = sym.show(sym.strip(args[0]))
                d = offset_delta(args[1])
                if "(*self).scope.data" in sl_t and d is not None:
                    return ("ref", ("byte", d))
                return ("badget", sl_t, sym.show(args[1]))
            return None
        try:
            sl = sym.StraightLine(b, call_hook=hook)
        except sym.StraightLine.Shape as e:
            run.fail("R14-P", "kernel-shape:" + name, "kernel is not straight-line code: %s" % e, "%s:%s" % (b.file, b.line))
            continue
        problems = []
        gets = [c for c in sl.calls if c[1].endswith("::get_unchecked")]
        for c in gets:
            if c[3][0] != "ref":
                problems.append("get_unchecked on %s at index %s is not self.scope.data[self.offset + const]" % (c[3][1], c[3][2]))
        off_writes = [w for w in sl.writes if w[0] == "(*self).offset"]
        other_self_writes = [w for w in sl.writes if w[0].startswith("(*self)") and w[0] != "(*self).offset"]
        if other_self_writes:
            problems.append("writes to %s" % [w[0] for w in other_self_writes])
        n = None
        if gets:
            if len(off_writes) != 1:
                problems.append("%d writes to self.offset (expected exactly 1)" % len(off_writes))
            else:
                n = offset_delta(off_writes[0][1])
                # reads happen before the write, so init() is the original cursor
                if n is None:
                    problems.append("cursor update is not self.offset += const: %s" % sym.show(off_writes[0][1]))
        else:
            if off_writes:
                problems.append("composite kernel writes the cursor directly")
            n = state["adv"]
        ret = sl.ret
        bs = byteset(ret, kernels) if ret is not None else None
        if n is not None and n > 0:
            want = {(i, 8 * (n - 1 - i)) for i in range(n)}
            if bs != want:
                problems.append("result is not the big-endian composition of %d bytes: got %s from %s" % (n, sorted(bs) if bs else None, sym.show(ret)))
            idx = sorted(i for i, _ in (bs or ()))
            if idx != list(range(n)):
                problems.append("bytes read %s != 0..%d" % (idx, n - 1))
        else:
            problems.append("could not determine the number of bytes consumed")
        # every call in the kernel must be recognised
        for c in sl.calls:
            r = c[3]
            if r[0] in ("ref", "kern"):
                continue
            if c[4] and c[4].endswith("std::convert::From::from"):
                continue
            problems.append("unrecognised call %s" % c[1])
        if problems:
            run.fail("R14-P", "kernel:" + name, "; ".join(problems), "%s:%s" % (b.file, b.line))
        else:
            kernels[name] = n
            run.ok("R14-P", "%s: reads bytes 0..%d at cursor, cursor += %d, result = %s" % (name, n - 1, n, sym.show(ret)[:110]))
    return kernels


# --------------------------------------------------------------------------------------------
def r14_k(run, fx):
    run.rule("R14-K", "check_avail returns Ok only when checked_add(offset, length) is Some(e) and e <= data.len(); "
                      "offset_length returns Ok only with data[offset..][0..length] obtained via checked get and length <= rest.len()")
    b = fx.body("binary::read::ReadCtxt::<'a>::check_avail")
    if b is None:
        run.anchor_missing("R14-K", "check_avail")
    else:
        prov = sym.Prov(b)
        okb = ok_blocks(b)
        problems = []
        if not okb:
            problems.append("no Ok return found")
        conds = guards.branch_conditions(b, prov)
        for ob in okb:
            # evidence 1: dominated by Some-arm of checked_add(self.offset, length)
            ev_add = False
            for bi, t in b.calls():
                if callee_is(t, "::checked_add") and not t["dest"]["p"]:
                    a0 = sym.show(sym.strip(prov.op(t["args"][0])))
                    a1 = sym.strip(prov.op(t["args"][1]))
                    if "offset" in a0 and a1[0] == "arg":
                        for sb in guards.success_blocks(b, t["dest"]["l"]):
                            if b.dominates(sb, ob):
                                ev_add = (t["dest"]["l"], a1, bi)
            if not ev_add:
                problems.append("Ok not dominated by Some(_) = self.offset.checked_add(length)")
                continue
            # evidence 2: dominated by true edge of endpos <= data.len()
            ev_le = False
            for tb, fb, op, x, y, sw in conds:
                for blk, o in ((tb, op), (fb, guards.CMP_NEG[op])):
                    if blk is None or not b.dominates(blk, ob):
                        continue
                    xs, ys = sym.strip(x), sym.strip(y)
                    def is_end(t):
                        # the success payload of that checked_add, directly (`Some(e)`) or through `.ok_or(..)?`
                        t = sym.strip(t)
                        for _ in range(6):
                            if t[0] == "field" and t[1][0] == "variant" and t[1][2] in ("Some", "Ok", "Continue"):
                                t = sym.strip(t[1][1])
                            elif t[0] == "call" and (t[4] or t[1] or "").endswith(guards.SUCCESS_PRESERVING) and t[2]:
                                t = sym.strip(t[2][0])
                            else:
                                break
                        return t[0] == "call" and t[1].endswith("::checked_add") and t[3] == ev_add[2]
                    def is_len(t):
                        t = sym.strip(t)
                        return t[0] == "call" and t[1].endswith("::len") and "scope.data" in sym.show(t)
                    if o == "Le" and is_end(xs) and is_len(y):
                        ev_le = True
                    if o == "Ge" and is_len(x) and is_end(ys):
                        ev_le = True
                    if o == "Lt" and is_end(xs) and is_len(y):
                        ev_le = True  # stricter than needed, still sound
                    if o == "Gt" and is_len(x) and is_end(ys):
                        ev_le = True
            if not ev_le:
                problems.append("Ok not dominated by endpos <= self.scope.data.len()")
        if problems:
            run.fail("R14-K", "check_avail", "; ".join(problems), "%s:%s" % (b.file, b.line))
        else:
            run.ok("R14-K", "check_avail: Ok dominated by Some(e)=offset.checked_add(length) and e <= scope.data.len()")
    b = fx.body("binary::read::ReadScope::<'a>::offset_length")
    if b is None:
        run.anchor_missing("R14-K", "offset_length")
    else:
        prov = sym.Prov(b)
        problems = []
        okb = ok_blocks(b)
        conds = guards.branch_conditions(b, prov)
        for ob in okb:
            # the ReadScope literal feeding Ok
            lit = None
            for s in b.stmts(ob):
                if s["k"] == "assign" and s["rv"]["k"] == "agg" and s["rv"].get("adt", "").endswith("read::ReadScope"):
                    lit = s
            if lit is None:
                problems.append("Ok block does not build a ReadScope literal")
                continue
            fields = dict(zip(lit["rv"]["fnames"], lit["rv"]["fields"]))
            data_t = sym.strip(prov.op(fields["data"]))
            ds = sym.show(data_t)
            # data must be Index::index(rest, Range{0, length}) with rest = get(offset..).unwrap_or(&[])
            ok_shape = False
            for sub in sym.walk(data_t):
                if sub[0] == "call" and sub[1].endswith("::index") and len(sub[2]) == 2:
                    rng = sym.strip(sub[2][1])
                    rest = sym.strip(sub[2][0])
                    is_0_len = rng[0] == "agg" and str(rng[1]).endswith("ops::Range") and len(rng[3]) == 2 and rng[3][0][0] == "c" and rng[3][0][1] == 0 and sym.strip(rng[3][1])[0] == "arg"
                    is_to_len = rng[0] == "agg" and str(rng[1]).endswith("ops::RangeTo") and len(rng[3]) == 1 and sym.strip(rng[3][0])[0] == "arg"
                    if is_0_len or is_to_len:
                        length_arg = sym.strip(rng[3][-1])
                        rs = sym.show(rest)
                        if "::get(" in rs and "unwrap_or" in rs and "RangeFrom" in rs:
                            # guard: length <= rest.len()
                            for tb, fb, op, x, y, sw in conds:
                                for blk, o in ((tb, op), (fb, guards.CMP_NEG[op])):
                                    if blk is None or not b.dominates(blk, ob):
                                        continue
                                    x1, y1 = sym.strip(x), sym.strip(y)
                                    def is_restlen(t):
                                        return t[0] == "call" and t[1].endswith("::len") and "unwrap_or" in sym.show(t)
                                    if o in ("Le", "Lt") and x1 == length_arg and is_restlen(y1):
                                        ok_shape = True
                                    if o in ("Ge", "Gt") and y1 == length_arg and is_restlen(x1):
                                        ok_shape = True
            if not ok_shape:
                problems.append("Ok scope data is not data.get(offset..).unwrap_or(&[])[0..length] under length <= rest.len(): %s" % ds[:200])
        if not okb:
            problems.append("no Ok return")
        if problems:
            run.fail("R14-K", "offset_length", "; ".join(problems), "%s:%s" % (b.file, b.line))
        else:
            run.ok("R14-K", "offset_length: Ok(ReadScope{data: rest[0..length]}) with rest = data.get(offset..).unwrap_or(&[]) under length <= rest.len()")


def ok_blocks(b):
    """blocks that assign Ok(..)/Some(..) to the return place"""
    out = []
    for bi, blk in enumerate(b.blocks):
        if not b.reachable(bi):
            continue
        for s in blk["s"]:
            if s["k"] == "assign" and s["p"]["l"] == 0 and not s["p"]["p"] and s["rv"]["k"] == "agg" and s["rv"].get("vname") in ("Ok", "Some"):
                out.append(bi)
    return out


# --------------------------------------------------------------------------------------------
def root_of(t):
    """strip refs/derefs to the underlying storage term of a cursor expression"""
    t = sym.strip(t)
    while t[0] in ("ref", "deref"):
        t = sym.strip(t[1])
    return t


def r14_d(run, fx, kernels, floors):
    run.rule("R14-D", "every call of an unsafe read_unchecked* from a safe fn is dominated by availability evidence on the same cursor "
                      "(check_avail(n)? success edge, or a fresh ctxt() of offset_length(_, n)) with n >= the callee's consumed size and "
                      "no cursor-advancing use of the cursor in between")
    sites = 0
    for b in fx.bodies:
        if b.j.get("unsafe"):
            continue  # unsafe-to-unsafe calls carry the obligation to their callers
        fam_unsafe = False
        if b.kind == "Closure":
            root = fx.by_dp.get(b.root_dp)
            fam_unsafe = bool(root and root.j.get("unsafe"))
        if fam_unsafe:
            continue
        prov = None
        for bi, t in b.calls():
            c = t["callee"]
            if not c.get("unsafe"):
                continue
            nm = c.get("name") or ""
            if not nm.startswith("read_unchecked"):
                if c.get("krate") == fx.raw["crate"] and not t.get("exp"):
                    # other unsafe callee of this crate called from safe code: must be in the audited table
                    if b.file != READ_RS and b.root not in AUDITED_UNSAFE_BLOCK:
                        run.fail("R14-D", "unsafe-call:%s->%s" % (b.root, c.get("path")), "call of an unsafe fn of this crate outside the reader", b.loc(t))
                continue
            sites += 1
            if prov is None:
                prov = sym.Prov(b)
            key = "%s->%s" % (b.root, c.get("path"))
            if b.file != READ_RS:
                run.fail("R14-D", key, "unchecked read called outside the reader module", b.loc(t))
                continue
            cursor = root_of(prov.op(t["args"][0]))
            need = needed_size(c, kernels)
            ev = find_evidence(b, prov, bi, cursor)
            if not ev:
                run.fail("R14-D", key, "no availability evidence (check_avail / offset_length scope) dominates the unchecked read on cursor %s" % sym.show(cursor), b.loc(t))
                continue
            good = None
            reasons = []
            for kind, size_t, from_bb in ev:
                ok, why = size_covers(size_t, need, c)
                if not ok:
                    reasons.append(why)
                    continue
                adv = intervening_advance(b, prov, from_bb, bi, cursor, t)
                if adv:
                    reasons.append("cursor advanced between evidence and read: %s" % adv)
                    continue
                good = (kind, size_t, why)
                break
            if good:
                run.ok("R14-D", "%s: %s(%s) dominates %s [%s]" % (b.path, good[0], sym.show(good[1]), c.get("path"), good[2]))
            else:
                run.fail("R14-D", key, "availability evidence does not cover the read: %s" % "; ".join(reasons), b.loc(t))
    if floors:
        run.floor("R14-D", "safe callers of read_unchecked*", sites, 12)
    return sites


def needed_size(c, kernels):
    nm = c.get("name")
    if nm in kernels:
        return ("const", kernels[nm])
    if c.get("trait", "").endswith("ReadUnchecked") and nm == "read_unchecked":
        return ("SIZE", c["args"][0])
    return ("unknown", None)


def size_covers(size_t, need, c):
    s = sym.strip(size_t)
    if need[0] == "const":
        if s[0] == "c" and s[1] is not None:
            if s[1] >= need[1]:
                return True, "constant %d >= %d bytes consumed" % (s[1], need[1])
            return False, "evidence for %d byte(s) but the kernel consumes %d" % (s[1], need[1])
        return False, "evidence size %s is not the kernel's constant %d" % (sym.show(s), need[1])
    if need[0] == "SIZE":
        if s[0] == "uneval" and s[1].endswith("ReadUnchecked::SIZE") and list(s[2])[:1] == [need[1]]:
            return True, "<%s as ReadUnchecked>::SIZE, same type as the callee" % need[1]
        if s[0] == "field" and s[2] == "stride":
            return True, "self.stride, >= T::SIZE by invariant R14-I"
        return False, "evidence size %s is neither <%s>::SIZE nor self.stride" % (sym.show(s), need[1])
    return False, "callee size unknown"


def find_evidence(b, prov, use_bb, cursor):
    """list of (kind, size term, from_bb)"""
    out = []
    # (a) check_avail(n) on the same cursor whose success edge dominates the use
    for bi, t in b.calls():
        if callee_is(t, "ReadCtxt::<'a>::check_avail") and not t["dest"]["p"]:
            if root_of(prov.op(t["args"][0])) != cursor:
                continue
            for sb in guards.success_blocks(b, t["dest"]["l"]):
                if b.dominates(sb, use_bb):
                    out.append(("check_avail", prov.op(t["args"][1]), sb))
    # (b) cursor is a local holding ReadScope::ctxt(&scope) with scope = offset_length(_, _, n) success payload
    if cursor[0] == "call" and cursor[1].endswith("ReadScope::<'a>::ctxt"):
        scope_t = root_of(cursor[2][0])
        if scope_t[0] == "call" and (scope_t[1].endswith("::unwrap") or scope_t[1].endswith("::expect")):
            inner = sym.strip(scope_t[2][0])
            if inner[0] == "call" and inner[1].endswith("ReadScope::<'a>::offset_length"):
                out.append(("offset_length", inner[2][2], cursor[3]))
    return out


def intervening_advance(b, prov, from_bb, use_bb, cursor, use_term):
    """a call that takes the cursor mutably (or a write to its offset) on a path from the evidence
    to the use"""
    region = b.reach_from(from_bb) & {x for x in range(len(b.blocks)) if use_bb in b.reach_from(x)}
    for bi in region:
        t = b.term(bi)
        if t["k"] == "call" and t is not use_term:
            for a in t["args"]:
                at = prov.op(a)
                if at[0] == "ref" and root_of(at) == cursor and a["k"] == "move" and b.local_ty(a["p"]["l"]).startswith("&mut"):
                    if bi == use_bb:
                        continue
                    return "%s at %s" % (t["callee"].get("path"), b.loc(t))
        for s in b.stmts(bi):
            if s["k"] == "assign" and "offset" in place_fields(s["p"]) and root_of(prov.place({"l": s["p"]["l"], "p": []})) == cursor:
                return "write to offset at %s" % b.loc(s)
    return None


# --------------------------------------------------------------------------------------------
def r14_i(run, fx, floors):
    run.rule("R14-I", "fields of ReadScope/ReadCtxt/ReadArray/ReadArrayIter are private to binary::read; every ReadArray/ReadArrayIter literal "
                      "sets stride from T::SIZE / T::size(args) / a parameter guarded by T::SIZE > stride => Err / an existing array's stride, "
                      "and scope from read_scope(length * stride); ReadCtxt.offset is written only by new (=0), the kernels (+= N) and read_scope")
    for name in ("ReadScope", "ReadCtxt", "ReadArray", "ReadArrayIter"):
        a = fx.adt("binary::read::" + name)
        if a is None:
            run.anchor_missing("R14-I", "struct " + name)
            continue
        for v in a["variants"]:
            for f in v["fields"]:
                if f["pub"] or not re.search(r"binary::read\)?$|binary::read\)", f["vis"]):
                    run.fail("R14-I", "field-vis:%s.%s" % (name, f["name"]), "field is visible outside binary::read (%s)" % f["vis"], "%s:%s" % (a["file"], a["line"]))
                else:
                    run.ok("R14-I", "%s.%s private to binary::read" % (name, f["name"]))
    lits = 0
    for b in fx.bodies:
        prov = None
        for bi, blk in enumerate(b.blocks):
            if not b.reachable(bi):
                continue
            for s in blk["s"]:
                if s["k"] != "assign":
                    continue
                rv = s["rv"]
                # writes to the cursor
                if "offset" in place_fields(s["p"]) and any(isinstance(e, dict) and e.get("n") == "offset" and (e.get("a") or "").endswith("read::ReadCtxt") for e in s["p"]["p"]):
                    nm = b.name or ""
                    if b.file == READ_RS and nm.startswith("read_unchecked_"):
                        run.ok("R14-I")     # the value written is checked by R14-P (+= N, once)
                    elif b.file == READ_RS and nm == "read_scope":
                        why = read_scope_write_ok(b, bi, s)
                        if why is True:
                            run.ok("R14-I", "read_scope: offset += length only after offset_length(self.offset, length) succeeded (no effect on failure)")
                        else:
                            run.fail("R14-I", "offset-write:read_scope", "cursor write in read_scope: %s" % why, b.loc(s))
                    else:
                        run.fail("R14-I", "offset-write:" + b.root, "write to ReadCtxt.offset outside the kernels/read_scope", b.loc(s))
                if rv["k"] == "ref" and rv["mut"] and any(isinstance(e, dict) and e.get("n") == "offset" and (e.get("a") or "").endswith("read::ReadCtxt") for e in rv["p"]["p"]):
                    run.fail("R14-I", "offset-mutref:" + b.root, "mutable reference to ReadCtxt.offset escapes", b.loc(s))
                if rv["k"] != "agg" or rv.get("agg") != "adt":
                    continue
                adt = rv["adt"]
                if adt == "binary::read::ReadCtxt":
                    fields = dict(zip(rv["fnames"], rv["fields"]))
                    if b.file == READ_RS and fieldwise_copy(sym.Prov(b), rv):
                        run.ok("R14-I", "ReadCtxt literal in %s: field-wise copy (derive(Clone))" % b.path)
                    elif b.name == "new" and b.file == READ_RS and fields["offset"].get("val") == 0:
                        run.ok("R14-I", "ReadCtxt literal in ReadCtxt::new with offset 0")
                    else:
                        run.fail("R14-I", "ctxt-literal:" + b.root, "ReadCtxt built outside ReadCtxt::new or with a non-zero offset", b.loc(s))
                if adt not in ("binary::read::ReadArray", "binary::read::ReadArrayIter"):
                    continue
                lits += 1
                key = "%s-literal:%s" % (adt.split("::")[-1], b.root)
                if b.file != READ_RS:
                    run.fail("R14-I", key, "literal outside the reader module", b.loc(s))
                    continue
                if prov is None:
                    prov = sym.Prov(b)
                fields = dict(zip(rv["fnames"], rv["fields"]))
                stride = root_of(prov.op(fields["stride"]))
                scope = root_of(prov.op(fields["scope"]))
                if fieldwise_copy(prov, rv):
                    run.ok("R14-I", "%s in %s: field-wise copy of an existing value (derive(Clone))" % (adt.split("::")[-1], b.path))
                    continue
                ok, why = stride_ok(b, prov, stride, bi)
                if not ok:
                    run.fail("R14-I", key, "stride %s: %s" % (sym.show(stride), why), b.loc(s))
                    continue
                ok2, why2 = scope_ok(b, prov, scope, stride, fields, adt)
                if not ok2:
                    run.fail("R14-I", key, "scope %s: %s" % (sym.show(scope)[:160], why2), b.loc(s))
                    continue
                run.ok("R14-I", "%s in %s: stride %s (%s); scope %s" % (adt.split("::")[-1], b.path, sym.show(stride), why, why2))
    if floors:
        run.floor("R14-I", "ReadArray/ReadArrayIter literals", lits, 5)


def read_scope_write_ok(b, bi, s):
    """the cursor write of read_scope is `self.offset = self.offset + length` (overflow-checked add of the
    parameter) and lies in a block dominated by the success edge of offset_length(self.offset, length)"""
    prov = sym.Prov(b)
    t = sym.strip(prov.rvalue(s["rv"]))
    # accepted value forms: offset + length (plain/overflow-checked) or a std checked/saturating/wrapping add of the two
    ops = None
    if t[0] == "bin" and t[1] in ("Add", "AddWithOverflow"):
        ops = [sym.strip(t[2]), sym.strip(t[3])]
    else:
        for x in sym.walk(t):
            if x[0] == "call" and (x[1] or "").endswith(("::checked_add", "::saturating_add", "::wrapping_add")) and len(x[2]) == 2:
                ops = [sym.strip(x[2][0]), sym.strip(x[2][1])]
                break
    if ops is None:
        return "the value written is not self.offset + length (%s)" % sym.show(t)[:80]

    def unref(o):
        while o[0] in ("ref", "deref"):
            o = sym.strip(o[1])
        return o
    ops = [unref(o) for o in ops]
    has_off = any(o[0] == "field" and o[2] == "offset" for o in ops)
    has_len = any(o[0] == "arg" and o[1] == 2 for o in ops)
    if not (has_off and has_len):
        return "the value written is not self.offset + length (%s)" % sym.show(t)[:80]
    for ci, ct in b.calls():
        if callee_is(ct, "ReadScope::<'a>::offset_length") and not ct["dest"]["p"] and len(ct["args"]) == 3:
            a1, a2 = sym.strip(prov.op(ct["args"][1])), sym.strip(prov.op(ct["args"][2]))
            if a1[0] == "field" and a1[2] == "offset" and a2[0] == "arg" and a2[1] == 2:
                for sb in guards.success_blocks(b, ct["dest"]["l"]):
                    if b.dominates(sb, bi):
                        return True
    return "not dominated by the success of offset_length(self.offset, length): the cursor moves even when the read fails"


def r14_a(run, fx, floors):
    run.rule("R14-A", "element addressing: in every ReadArray/ReadArrayIter method the window of element i is "
                      "scope.offset_length(i * S, S) / scope.offset(i * S) with S the array's stride (self.stride, or T::size(self.args) for "
                      "argument-sized arrays) — never T::SIZE or another quantity — so strided arrays expose exactly their elements, in order")
    n = 0
    for b in fx.bodies:
        if b.file != READ_RS or "ReadArray" not in b.root:
            continue
        prov = sym.Prov(b)
        for bi, t in b.calls():
            if not callee_is(t, "ReadScope::<'a>::offset_length", "ReadScope::<'a>::offset"):
                continue
            recv = sym.strip(prov.op(t["args"][0]))
            while recv[0] in ("ref", "deref"):
                recv = sym.strip(recv[1])
            if not (recv[0] == "field" and recv[2] == "scope"):
                continue
            n += 1
            off = sym.strip(prov.op(t["args"][1]))
            key = "addressing:%s" % b.root

            def is_stride(x):
                x = sym.strip(x)
                if x[0] == "field" and x[2] == "stride":
                    return "self.stride"
                if x[0] == "call" and (x[4] or "").endswith("ReadFixedSizeDep::size") and x[2]:
                    a = sym.strip(x[2][0])
                    if a[0] == "field" and a[2] == "args":
                        return "T::size(self.args)"
                return None
            s_used = None
            if off[0] == "bin" and off[1] in ("Mul", "MulWithOverflow"):
                s_used = is_stride(off[2]) or is_stride(off[3])
            if s_used is None:
                run.fail("R14-A", key, "element offset %s is not index * stride" % sym.show(off)[:80], b.loc(t))
                continue
            if callee_is(t, "ReadScope::<'a>::offset") and not callee_is(t, "ReadScope::<'a>::offset_length"):
                # an open-ended window is fine for the fixed-size kernels (their availability is checked, R14-D); an element decoder of
                # the client (`T::read_dep`) must get exactly its element, or it can read its neighbours
                leaks = []
                for bj, t2 in b.calls():
                    p2 = t2["callee"].get("path") or ""
                    if p2.endswith(("ReadBinaryDep::read_dep", "ReadBinary::read")) and t2["args"]:
                        if any(x[0] == "call" and x[3] == bi and (x[1] or "").endswith("ReadScope::<'a>::offset") for x in sym.walk(prov.op(t2["args"][0]))):
                            leaks.append(t2)
                if leaks:
                    run.fail("R14-A", key, "the element decoder is handed a cursor on scope.offset(i * S), an open-ended window: element i can read the bytes "
                             "of the elements after it (the window must be offset_length(i * S, S))", b.loc(t))
                    continue
            if callee_is(t, "ReadScope::<'a>::offset_length"):
                ln = is_stride(prov.op(t["args"][2]))
                if ln != s_used:
                    run.fail("R14-A", key, "element window length %s is not the stride used for the offset (%s)" % (sym.show(sym.strip(prov.op(t["args"][2])))[:60], s_used), b.loc(t))
                    continue
            run.ok("R14-A", "%s: element window at index * %s" % (b.path, s_used))
    if floors:
        run.floor("R14-A", "element addressing sites", n, 4)


def fieldwise_copy(prov, rv):
    """every field of the literal is (a clone of) the same-named field of one existing value"""
    bases = set()
    for name, f in zip(rv["fnames"], rv["fields"]):
        t = root_of(prov.op(f))
        if t[0] != "field" or t[2] != name:
            return False
        bases.add(root_of(t[1]))
    return len(bases) == 1


def stride_ok(b, prov, stride, use_bb):
    if stride[0] == "uneval" and stride[1].endswith("ReadUnchecked::SIZE"):
        return True, "T::SIZE"
    if stride[0] == "call" and stride[1].endswith("ReadFixedSizeDep::size"):
        return True, "T::size(args)"
    if stride[0] == "field" and stride[2] == "stride":
        return True, "copied from an existing array"
    if stride[0] == "arg":
        # guarded by SIZE > stride => return Err (the literal is on the other side)
        for tb, fb, op, x, y, sw in guards.branch_conditions(b, prov):
            for blk, o in ((tb, op), (fb, guards.CMP_NEG[op])):
                if blk is None or not b.dominates(blk, use_bb):
                    continue
                x1, y1 = sym.strip(x), sym.strip(y)
                def is_size(t):
                    return t[0] == "uneval" and t[1].endswith("ReadUnchecked::SIZE")
                if o in ("Le", "Lt") and is_size(x1) and y1 == stride:
                    return True, "parameter guarded by T::SIZE <= stride"
                if o in ("Ge", "Gt") and x1 == stride and is_size(y1):
                    return True, "parameter guarded by stride >= T::SIZE"
        return False, "caller-supplied stride is not guarded by T::SIZE > stride => Err"
    return False, "unrecognised stride origin"


def scope_ok(b, prov, scope, stride, fields, adt):
    s = scope
    if adt.endswith("ReadArrayIter"):
        if s[0] == "field" and s[2] == "scope":
            return True, "the array's own scope"
        return False, "iterator scope is not the array's scope"
    # ReadArray: Ok payload of read_scope(length * stride)
    if s[0] == "variant" or s[0] == "field":
        pass
    for sub in sym.walk(s):
        if sub[0] == "call" and sub[1].endswith("ReadCtxt::<'a>::read_scope"):
            prod = sym.strip(sub[2][1])
            length = sym.strip(prov.op(fields["length"]))
            if prod[0] == "bin" and prod[1] == "Mul":
                a, c = sym.strip(prod[2]), sym.strip(prod[3])
                if (a == length and c == stride) or (a == stride and c == length):
                    return True, "read_scope(length * stride)"
            if prod[0] == "call" and ("checked_mul" in prod[1]):
                pass
            # checked product: checked_mul(length, stride).ok_or(..)? payload
            ps = sym.show(prod)
            if "checked_mul" in ps:
                for sub2 in sym.walk(prod):
                    if sub2[0] == "call" and sub2[1].endswith("::checked_mul"):
                        a, c = sym.strip(sub2[2][0]), sym.strip(sub2[2][1])
                        if (a == length and c == stride) or (a == stride and c == length):
                            return True, "read_scope(length.checked_mul(stride)?)"
            return False, "read_scope argument %s is not length * stride" % sym.show(prod)
        if sub[0] == "call" and sub[1].endswith("ReadScope::<'a>::new"):
            length = sym.strip(prov.op(fields["length"]))
            if length[0] == "c" and length[1] == 0:
                return True, "empty scope with length 0"
    return False, "scope does not come from read_scope(length * stride)"


# --------------------------------------------------------------------------------------------
def r14_s(run, fx, kernels, floors):
    run.rule("R14-S", "for every concrete X with an instance of <X as ReadUnchecked>::read_unchecked: evaluated SIZE == bytes consumed "
                      "(primitive: kernel N; tuple: sum of components; ReadFrom: consumed(ReadType)); composite bodies call each component once, in order")
    # generic bodies: tuples and the ReadFrom blanket
    for arity in (2, 3, 4):
        ts = ", ".join("T%d" % i for i in range(1, arity + 1))
        b = fx.body("<(%s) as binary::read::ReadUnchecked>::read_unchecked" % ts)
        if b is None:
            run.anchor_missing("R14-S", "tuple impl arity %d" % arity)
            continue
        try:
            sl = sym.StraightLine(b)
            seq = [c[2] and fx_callee_arg(b, c[0]) for c in sl.calls if c[1].endswith("read_unchecked")]
            want = ["T%d" % i for i in range(1, arity + 1)]
            ret = sym.strip(sl.ret)
            ok = seq == want and ret[0] == "agg" and ret[1] == "tuple" and len(ret[3]) == arity and all(
                sym.strip(ret[3][i])[0] == "call" and sym.strip(ret[3][i])[3] == [c[0] for c in sl.calls if c[1].endswith("read_unchecked")][i] for i in range(arity))
            if ok:
                run.ok("R14-S", "tuple arity %d: reads %s in order, once each, returns them in order" % (arity, seq))
            else:
                run.fail("R14-S", "tuple-body:%d" % arity, "component reads %s are not exactly %s in order / result not the ordered tuple" % (seq, want), "%s:%s" % (b.file, b.line))
        except sym.StraightLine.Shape as e:
            run.fail("R14-S", "tuple-body:%d" % arity, "not straight-line: %s" % e, "%s:%s" % (b.file, b.line))
    b = fx.body("<T as binary::read::ReadUnchecked>::read_unchecked")
    if b is None:
        run.anchor_missing("R14-S", "blanket ReadFrom impl")
    else:
        try:
            sl = sym.StraightLine(b)
            reads = [c for c in sl.calls if c[1].endswith("read_unchecked")]
            args = [fx_callee_arg(b, c[0]) for c in reads]
            if len(reads) == 1 and args == ["<T as binary::read::ReadFrom>::ReadType"]:
                run.ok("R14-S", "blanket impl: one read of <T as ReadFrom>::ReadType, then read_from")
            else:
                run.fail("R14-S", "blanket-body", "blanket ReadFrom impl does not read ReadType exactly once: %s" % args, "%s:%s" % (b.file, b.line))
        except sym.StraightLine.Shape as e:
            run.fail("R14-S", "blanket-body", "not straight-line: %s" % e, "%s:%s" % (b.file, b.line))
    # primitive impl bodies: a single call of the matching kernel
    for ty, kn in PRIMS.items():
        b = fx.body("<%s as binary::read::ReadUnchecked>::read_unchecked" % ty)
        if b is None:
            run.anchor_missing("R14-S", "primitive impl " + ty)
            continue
        calls = [t for _, t in b.calls()]
        if len(calls) == 1 and calls[0]["callee"].get("name") == kn:
            run.ok("R14-S")
        else:
            run.fail("R14-S", "prim-body:" + ty, "primitive impl does not call exactly its kernel %s: %s" % (kn, [c["callee"].get("path") for c in calls]), "%s:%s" % (b.file, b.line))
    # concrete types
    read_type = {}
    size = {}
    struct = {}
    for n in fx.nodes:
        if n.get("poly") or not n.get("assoc"):
            continue
        if n["path"].endswith("as binary::read::ReadFrom>::read_from"):
            for a in n["assoc"]:
                if a["name"] == "ReadType":
                    read_type[n["self_ty"]["s"]] = a["ty"]
        if n["path"].endswith("as binary::read::ReadUnchecked>::read_unchecked"):
            for a in n["assoc"]:
                if a["name"] == "SIZE":
                    size[n["self_ty"]["s"]] = a["val"]
                    struct[n["self_ty"]["s"]] = n["self_ty"]

    def consumed(t, depth=0):
        if depth > 12:
            return None
        s = t["s"]
        if s in PRIMS:
            return kernels.get(PRIMS[s])
        if "tuple" in t:
            tot = 0
            for c in t["tuple"]:
                x = consumed(c, depth + 1)
                if x is None:
                    return None
                tot += x
            return tot
        if s in read_type:
            return consumed(read_type[s], depth + 1)
        return None
    n_types = 0
    for s, val in sorted(size.items()):
        n_types += 1
        c = consumed(struct[s])
        if c is None:
            run.fail("R14-S", "size:" + s, "cannot derive the bytes consumed by %s (no ReadFrom::ReadType instance found)" % s)
        elif c != val:
            run.fail("R14-S", "size:" + s, "<%s as ReadUnchecked>::SIZE = %s but read_unchecked consumes %s bytes" % (s, val, c))
        else:
            run.ok("R14-S", "%s: SIZE %d == consumed %d" % (s, val, c))
    if floors:
        run.floor("R14-S", "concrete ReadUnchecked types", n_types, 60)
    # no ReadUnchecked impl outside the reader file
    for i in fx.tables["impls"]:
        if i.get("trait") == "binary::read::ReadUnchecked" and i["file"] != READ_RS:
            run.fail("R14-S", "impl-outside:" + i["self"], "ReadUnchecked implemented outside the reader module", "%s:%s" % (i["file"], i["line"]))
    return n_types


def fx_callee_arg(b, bb):
    t = b.term(bb)
    a = t["callee"].get("args") or []
    return a[0] if a else None


# --------------------------------------------------------------------------------------------
def r14_g(run, fx):
    run.rule("R14-G", "indexed access (get_item/read_item, check_index) succeeds only under index < length")
    for path, lenfield in (("binary::read::ReadArray::<'a, T>::get_item", "length"), ("binary::read::ReadArray::<'a, T>::read_item", "length")):
        b = fx.body(path)
        if b is None:
            run.anchor_missing("R14-G", path)
            continue
        prov = sym.Prov(b)
        conds = guards.branch_conditions(b, prov)
        okb = ok_blocks(b)
        # the block that produces the value: Some(..) for get_item; for read_item the read_dep call
        targets = list(okb)
        for bi, t in b.calls():
            if callee_is(t, "ReadBinaryDep::read_dep", "ReadUnchecked::read_unchecked", "::offset_length"):
                targets.append(bi)
        bad = []
        for tb_ in targets:
            good = False
            for tb, fb, op, x, y, sw in conds:
                for blk, o in ((tb, op), (fb, guards.CMP_NEG[op])):
                    if blk is None or not b.dominates(blk, tb_):
                        continue
                    x1, y1 = sym.strip(x), sym.strip(y)
                    if o == "Lt" and x1[0] == "arg" and x1[2] == "index" and y1[0] == "field" and y1[2] == lenfield:
                        good = True
                    if o == "Gt" and y1[0] == "arg" and y1[2] == "index" and x1[0] == "field" and x1[2] == lenfield:
                        good = True
            if not good:
                bad.append(tb_)
        if bad or not targets:
            run.fail("R14-G", "index-guard:" + path, "element access not dominated by index < self.%s (blocks %s)" % (lenfield, bad), "%s:%s" % (b.file, b.line))
        else:
            run.ok("R14-G", "%s: %d access/result blocks dominated by index < self.%s" % (path, len(targets), lenfield))
    for b in fx.bodies:
        if b.name == "check_index" and b.j.get("impl_trait", "").endswith("CheckIndex") and b.file == READ_RS:
            prov = sym.Prov(b)
            conds = guards.branch_conditions(b, prov)
            good = True
            for ob in ok_blocks(b):
                g = False
                for tb, fb, op, x, y, sw in conds:
                    for blk, o in ((tb, op), (fb, guards.CMP_NEG[op])):
                        if blk is None or not b.dominates(blk, ob):
                            continue
                        x1, y1 = sym.strip(x), sym.strip(y)
                        if o == "Lt" and x1[0] == "arg" and y1[0] == "call" and y1[1].endswith("::len"):
                            g = True
                        if o == "Gt" and y1[0] == "arg" and x1[0] == "call" and x1[1].endswith("::len"):
                            g = True
                good = good and g
            if good and ok_blocks(b):
                run.ok("R14-G", "%s: Ok only under index < len()" % b.path)
            else:
                run.fail("R14-G", "check_index:" + b.j.get("impl_self", b.path), "Ok not dominated by index < self.len()", "%s:%s" % (b.file, b.line))


# --------------------------------------------------------------------------------------------
def r14_o(run, fx):
    run.rule("R14-O", "in the public reader API every product of a caller-supplied usize (length * T::SIZE, length * stride) "
                      "that sizes a scope must be checked (checked_mul/saturating) — an unchecked product wraps in release builds "
                      "and yields an array whose len() exceeds its window")
    for nm in ("read_array", "read_array_stride", "read_array_dep"):
        b = fx.body("binary::read::ReadCtxt::<'a>::" + nm)
        if b is None:
            run.anchor_missing("R14-O", nm)
            continue
        bad = None
        for bi, blk in enumerate(b.blocks):
            t = blk["t"]
            if t["k"] == "assert" and t["kind"] == "Overflow:Mul" and b.reachable(bi):
                bad = t
        if bad is not None:
            run.fail("R14-O", "unchecked-mul:" + nm, "length * size is an unchecked multiplication of a caller-supplied length", b.loc(bad))
        else:
            run.ok("R14-O", "%s: no unchecked multiplication" % nm)


def r14_n(run, fx):
    rule = "R14-N"
    run.rule(rule, "read_until_nibble stops at the first byte that holds the nibble in EITHER half: its predicate compares both (b >> 4) and "
                   "(b & 0xF) with the argument (CFF real numbers end with a 0xF nibble in the high or in the low position)")
    cl = [b for b in fx.bodies if b.kind == "Closure" and b.path.startswith("binary::read::ReadCtxt::<'a>::read_until_nibble::")]
    if not cl:
        return run.anchor_missing(rule, "closure of ReadCtxt::read_until_nibble")
    for b in cl:
        prov = sym.Prov(b)
        hi = lo = False
        for blk in b.blocks:
            for st in blk["s"]:
                if st["k"] == "assign" and st["rv"]["k"] == "bin" and st["rv"]["bop"] == "Eq":
                    for side in ("a", "b"):
                        t = sym.strip(prov.op(st["rv"][side]))
                        if t[0] == "bin" and t[1] == "Shr" and sym.strip(t[3])[0] == "c" and sym.strip(t[3])[1] == 4:
                            hi = True
                        if t[0] == "bin" and t[1] == "BitAnd" and any(sym.strip(x)[0] == "c" and sym.strip(x)[1] == 15 for x in (t[2], t[3])):
                            lo = True
        if hi and lo:
            run.ok(rule, "predicate tests (b >> 4) == n and (b & 0xF) == n")
        else:
            run.fail(rule, "nibble-predicate", "read_until_nibble tests only the %s nibble of each byte: a terminator in the other half is run over "
                     "(the read overruns into following data or reports a spurious end of data)" % ("high" if hi else "low" if lo else "?"), "%s:%s" % (b.file, b.line))


def r14_e(run, fx, floors=True):
    """a failing read leaves no effect"""
    import guards
    rule = "R14-E"
    run.rule(rule, "a read of ReadCtxt that fails leaves the cursor where it was: in every Result-returning method of ReadCtxt, once the cursor has been "
                   "advanced (a store to self.offset, or a call that takes the context by &mut and succeeded) no error exit of the method itself - an "
                   "Err built here, or a `?` on a later call - is reachable; availability is tested before the first advance, for the whole item")
    n = 0
    for b in fx.bodies:
        if not b.path.startswith("binary::read::ReadCtxt::<'a>::") or b.kind == "Closure":
            continue
        if not (b.local_ty(0) or "").startswith("std::result::Result<"):
            continue
        # error exits made by this method
        err_blocks = set()
        for bi in range(len(b.blocks)):
            if not b.reachable(bi):
                continue
            t = b.term(bi)
            if t["k"] == "call" and (t["callee"].get("path") or "").endswith("FromResidual::from_residual") and t["dest"]["l"] == 0:
                err_blocks.add(bi)
            for st in b.stmts(bi):
                if st["k"] == "assign" and st["p"]["l"] == 0 and not st["p"]["p"] and st["rv"]["k"] == "agg" and st["rv"].get("vname") == "Err":
                    err_blocks.add(bi)
        starts = []
        for bi in range(len(b.blocks)):
            if not b.reachable(bi):
                continue
            for st in b.stmts(bi):
                if st["k"] == "assign" and b.local_name(st["p"]["l"]) == "self" and any(isinstance(e, dict) and e.get("n") == "offset" for e in st["p"]["p"]):
                    starts.append((bi, "the store to self.offset", [x for x in b.succs(bi)] or [bi]))
            t = b.term(bi)
            if t["k"] == "call" and t["args"]:
                ty = (t["args"][0].get("p") or {}).get("ty") or ""
                if ty.startswith("&mut binary::read::ReadCtxt") and t.get("target") is not None:
                    name = (t["callee"].get("path") or "?").split("::")[-1]
                    dty = t["dest"].get("ty") or ""
                    if dty.startswith(("std::result::Result<", "std::option::Option<")) and not t["dest"]["p"]:
                        sb = guards.success_blocks(b, t["dest"]["l"])
                        if not sb:
                            # the result is handed on unchanged (`T::read_dep(self, args)` as the tail expression): nothing of this method follows
                            continue
                        starts.append((bi, "the successful call of %s" % name, sb))
                    else:
                        starts.append((bi, "the call of %s" % name, [t["target"]]))
        if not starts:
            continue
        n += 1
        bad = None
        for bi, what, froms in starts:
            seen = set()
            stack = list(froms)
            while stack:
                x = stack.pop()
                if x in seen or b.blocks[x].get("cleanup"):
                    continue
                seen.add(x)
                if x in err_blocks:
                    bad = (what, x)
                    break
                stack.extend(b.succs(x))
            if bad:
                break
        short = b.path.split("::")[-1]
        if bad:
            run.fail(rule, "effect-then-error|%s" % short, "ReadCtxt::%s can return an error of its own after %s has advanced the cursor: a caller that sees the "
                     "error finds the cursor moved (test the availability of the whole item first)" % (short, bad[0]), b.loc(b.term(bad[1])))
        else:
            run.ok(rule, "%s: no own error exit after the cursor moves" % short)
    if floors:
        run.floor(rule, "cursor-advancing methods of ReadCtxt", n, 13)


def check(run, fx, tier, floors=True):
    r14_u(run, fx, floors)
    kernels = r14_p(run, fx)
    r14_k(run, fx)
    r14_d(run, fx, kernels, floors)
    r14_i(run, fx, floors)
    r14_s(run, fx, kernels, floors)
    r14_g(run, fx)
    r14_a(run, fx, floors)
    r14_o(run, fx)
    if floors or any(b.path.startswith("binary::read::ReadCtxt::<'a>::read_") for b in fx.bodies):
        r14_e(run, fx, floors)
    if floors or any(b.path.startswith("binary::read::ReadCtxt::<'a>::read_until_nibble") for b in fx.bodies):
        r14_n(run, fx)
    run.analysed["kernels"] = kernels
