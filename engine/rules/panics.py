"""Rule C01-b: explicit panic discipline. Enumerates every *documented* panic site of the crate
(unwrap/expect, panic!-family macros, std APIs that panic on an argument relation, range slicing)
and classifies it: locally discharged, audited (ledger), known finding or violation."""
import re
from collections import Counter, defaultdict

import guards
import sym
from facts import callee_is, op_local

PANIC_FNS = (
    "core::panicking::panic", "core::panicking::panic_fmt", "std::rt::begin_panic", "core::panicking::panic_explicit",
    "core::panicking::unreachable_display", "core::panicking::assert_failed", "core::panicking::panic_display",
    "std::rt::panic_fmt", "core::panicking::panic_nounwind", "core::panicking::panic_str_2015", "core::panicking::panic_in_cleanup",
    "std::rt::begin_panic_fmt", "core::option::expect_failed", "core::result::unwrap_failed", "core::option::unwrap_failed",
)

UNWRAPS = {
    "std::option::Option::<T>::unwrap": "Option::unwrap", "std::option::Option::<T>::expect": "Option::expect",
    "std::result::Result::<T, E>::unwrap": "Result::unwrap", "std::result::Result::<T, E>::expect": "Result::expect",
    "std::result::Result::<T, E>::unwrap_err": "Result::unwrap_err", "std::result::Result::<T, E>::expect_err": "Result::expect_err",
}

# std APIs with a documented panic on an argument relation: path suffix -> short name
ARG_PANICS = {
    "std::cmp::Ord::clamp": "clamp", "core::f32::<impl f32>::clamp": "clamp", "core::f64::<impl f64>::clamp": "clamp",
    "core::slice::<impl [T]>::split_at": "split_at", "core::slice::<impl [T]>::split_at_mut": "split_at_mut",
    "core::slice::<impl [T]>::copy_from_slice": "copy_from_slice", "core::slice::<impl [T]>::clone_from_slice": "clone_from_slice",
    "std::vec::Vec::<T, A>::remove": "Vec::remove", "std::vec::Vec::<T, A>::insert": "Vec::insert",
    "std::vec::Vec::<T, A>::swap_remove": "Vec::swap_remove", "std::vec::Vec::<T, A>::drain": "Vec::drain",
    "std::vec::Vec::<T, A>::split_off": "Vec::split_off", "std::vec::Vec::<T, A>::splice": "Vec::splice",
    "core::slice::<impl [T]>::swap": "slice::swap", "core::slice::<impl [T]>::rotate_left": "rotate_left",
    "core::slice::<impl [T]>::rotate_right": "rotate_right", "core::slice::<impl [T]>::chunks": "chunks",
    "core::slice::<impl [T]>::chunks_exact": "chunks_exact", "core::slice::<impl [T]>::windows": "windows",
    "std::iter::Iterator::step_by": "step_by", "core::slice::<impl [T]>::copy_within": "copy_within",
    "std::string::String::remove": "String::remove", "std::string::String::insert": "String::insert",
    "core::str::<impl str>::split_at": "str::split_at", "std::collections::VecDeque::<T, A>::remove": None,
    "core::char::methods::<impl char>::from_digit": "from_digit", "core::char::methods::<impl char>::to_digit": "to_digit",
    "core::num::<impl u32>::pow": None,
    "std::collections::BTreeMap::<K, V, A>::range": "BTreeMap::range", "std::collections::BTreeMap::<K, V, A>::range_mut": "BTreeMap::range",
    "std::collections::BTreeSet::<T, A>::range": "BTreeSet::range",
}

RANGE_TYS = ("std::ops::Range<", "std::ops::RangeFrom<", "std::ops::RangeTo<", "std::ops::RangeInclusive<", "std::ops::RangeToInclusive<",
             "(std::ops::Bound<")


class Site:
    __slots__ = ("body", "bb", "term", "cls", "what", "macro", "payload", "debug_only")

    def __init__(self, body, bb, term, cls, what, macro=None, payload="", debug_only=False):
        self.body, self.bb, self.term, self.cls, self.what = body, bb, term, cls, what
        self.macro, self.payload, self.debug_only = macro, payload, debug_only

    def key(self):
        return "%s|%s|%s|%s" % (self.cls, self.body.root, self.what, self.payload)

    def loc(self):
        return self.body.loc(self.term)


def macro_of(t):
    ms = t.get("macros") or []
    for m in reversed(ms):  # outermost last
        pass
    for m in ms:
        if m in ("unreachable", "unimplemented", "todo", "panic", "assert", "assert_eq", "assert_ne", "debug_assert", "debug_assert_eq", "debug_assert_ne"):
            return m
    return ms[0] if ms else None


def outer_macro(t):
    ms = t.get("macros") or []
    names = set(ms)
    for m in ("debug_assert", "debug_assert_eq", "debug_assert_ne", "assert", "assert_eq", "assert_ne", "unreachable", "unimplemented", "todo", "panic"):
        if m in names:
            return m
    return ms[-1] if ms else None


def message_of(body, t):
    """string literal of a panic message, if any (kept short, no formatting args)"""
    for a in t.get("args", []):
        if a.get("k") == "const" and isinstance(a.get("s"), str) and '"' in a["s"]:
            m = re.search(r'"(.*)"', a["s"])
            if m:
                return m.group(1)[:60]
    # format_args: message pieces live in a promoted const; look at statements of the block
    return ""


def enumerate_sites(fx):
    sites = []
    for b in fx.bodies:
        if b.exp and not b.path.startswith("<"):
            # bodies wholly generated by external macros (ouroboros, bitflags, derives)
            if any(x in b.path for x in ("ouroboros_impl_", "::from_bits_unchecked")):
                continue
        prov = None
        for bi, t in b.calls():
            c = t["callee"]
            path = c.get("path") or ""
            rpath = c.get("rpath") or ""
            # 1. unwrap family
            if path in UNWRAPS:
                if is_derive_or_external_macro(t):
                    continue
                sites.append(Site(b, bi, t, "unwrap", UNWRAPS[path], payload=ty_brief(b, t)))
                continue
            # 2. panic machinery
            if path in PANIC_FNS or rpath in PANIC_FNS:
                m = outer_macro(t)
                if m is None and is_derive_or_external_macro(t):
                    continue
                if m in (None, "write", "format", "println", "eprintln", "format_args"):
                    m = m or "panic-call"
                debug_only = m in ("debug_assert", "debug_assert_eq", "debug_assert_ne")
                sites.append(Site(b, bi, t, "panic", m, macro=m, payload=message_of(b, t), debug_only=debug_only))
                continue
            # 3. std APIs that panic on an argument relation
            hit = None
            for k, v in ARG_PANICS.items():
                if v and (path == k or rpath == k):
                    hit = v
            if hit:
                if is_derive_or_external_macro(t):
                    continue
                sites.append(Site(b, bi, t, "argpanic", hit, payload=""))
                continue
            # 4. range slicing through Index/IndexMut with a range index type
            if (path.endswith("std::ops::Index::index") or path.endswith("std::ops::IndexMut::index_mut")) and len(c.get("args", [])) >= 2:
                recv_ty, idx_ty = c["args"][0], c["args"][1]
                if idx_ty.startswith(RANGE_TYS) or idx_ty == "std::ops::RangeFull":
                    if idx_ty == "std::ops::RangeFull":
                        continue
                    if is_derive_or_external_macro(t):
                        continue
                    sites.append(Site(b, bi, t, "slice", "range-index", payload="%s[%s]" % (short_ty(recv_ty), short_ty(idx_ty))))
                    continue
                # map[key] on hash/btree maps
                if recv_ty.startswith(("std::collections::HashMap<", "std::collections::BTreeMap<", "std::collections::hash::map::HashMap<")):
                    sites.append(Site(b, bi, t, "argpanic", "map-index", payload=short_ty(recv_ty)))
                    continue
    return sites


def is_derive_or_external_macro(t):
    ms = t.get("macros") or []
    return any(m in ("PartialEq", "Debug", "Clone", "Hash", "Ord", "PartialOrd", "self_referencing", "bitflags", "__impl_bitflags", "lazy_static", "__lazy_static_internal") for m in ms)


def short_ty(s):
    s = re.sub(r"\b(?:std|core|alloc)::(?:\w+::)*", "", s)
    s = re.sub(r"\b(?:\w+::)+", "", s)
    return s[:50]


def ty_brief(b, t):
    a = t["callee"].get("args") or []
    return short_ty(a[0]) if a else ""


# --------------------------------------------------------------------------------------------
# local discharge

def discharge(fx, site):
    """returns a reason string when the site is locally discharged, else None"""
    b, bi, t = site.body, site.bb, site.term
    prov = sym.Prov(b)
    if site.cls == "unwrap":
        recv = sym.strip(prov.op(t["args"][0]))
        # receiver constructed Some/Ok on all reaching definitions
        if recv[0] == "agg" and recv[2] in ("Some", "Ok") and site.what in ("Option::unwrap", "Option::expect", "Result::unwrap", "Result::expect"):
            return "receiver is a literal %s(..)" % recv[2]
        if recv[0] == "call":
            name = recv[1] or ""
            decl = recv[4] or ""
            # X::try_from(v).unwrap() / v.try_into().unwrap() where the conversion cannot fail by type width
            if decl.endswith("TryFrom::try_from") or decl.endswith("TryInto::try_into"):
                m = re.search(r"impl std::convert::TryFrom<(\w+)> for (\w+)", name)
                if m and int_fits(m.group(1), m.group(2)):
                    return "infallible integer conversion %s -> %s" % (m.group(1), m.group(2))
            # offset_length(range already checked).unwrap(): the read_item idiom inside the reader
            if name.endswith("ReadScope::<'a>::offset_length") and b.file == "src/binary/read.rs":
                return "reader-internal offset_length under the index guard (decided by C14 R14-G)"
            # char::from_u32 / from_digit of constants etc. are not assumed
            if name.endswith("::checked_sub") or name.endswith("::checked_add"):
                pass
            # iterator/collection results guarded by a dominating non-emptiness test on the same receiver
            if name.endswith(("::last", "::first", "::pop", "::next", "::max", "::min", "::last_mut", "::first_mut", "::iter")):
                g = nonempty_guard(b, prov, bi, recv)
                if g:
                    return g
        # dominated by is_some()/is_ok() test on the same place
        g = variant_guard(b, prov, bi, t["args"][0])
        if g:
            return g
        return None
    if site.cls == "slice":
        return slice_guard(b, prov, bi, t)
    if site.cls == "argpanic":
        if site.what == "clamp":
            lo, hi = sym.strip(prov.op(t["args"][1])), sym.strip(prov.op(t["args"][2]))
            lv, hv = const_val(fx, lo), const_val(fx, hi)
            if lv is not None and hv is not None and lv <= hv:
                return "constant bounds %s <= %s" % (lv, hv)
            import overflow
            iv = overflow.Intervals(fx, b, prov)
            li, hi_ = iv.term(lo), iv.term(hi)
            if li is not None and hi_ is not None and li[1] <= hi_[0]:
                return "bounds ordered by interval arithmetic: lo <= %s <= %s <= hi" % (li[1], hi_[0])
            # lo = min(_, d), hi = max(_, d) over a common d  =>  lo <= d <= hi
            if lo[0] == "call" and hi[0] == "call" and (lo[4] or "").endswith("Ord::min") and (hi[4] or "").endswith("Ord::max"):
                la = [sym.norm(sym.strip(x)) for x in lo[2]]
                ha = [sym.norm(sym.strip(x)) for x in hi[2]]
                if any(x in ha for x in la):
                    return "bounds are min(_, d) and max(_, d) of a common d, hence ordered"
            # however the bounds were computed: read the function as a decision list over the scalars it reads and evaluate every path on a
            # grid that contains all their orderings and ties; no assignment reaches a clamp with lower > upper
            import fnread
            try:
                n, atoms = fnread.never_panics(b)
                if n is not None:
                    return "no clamp with unordered bounds on %d assignments covering every ordering of %s" % (n, ", ".join(atoms))
            except fnread.Undecided:
                pass
            return None
        if site.what in ("BTreeMap::range", "BTreeSet::range"):
            # range(a..=b) / range(a..b) dominated by a comparison establishing a <= b on the same two terms
            r = sym.strip(prov.op(t["args"][1]))
            while r[0] in ("ref", "deref"):
                r = sym.strip(r[1])
            ends = None
            if r[0] == "call" and (r[1] or "").endswith(("RangeInclusive::<Idx>::new",)) and len(r[2]) == 2:
                ends = (sym.strip(r[2][0]), sym.strip(r[2][1]))
            elif r[0] == "agg" and r[4] and "start" in r[4] and "end" in r[4]:
                f = dict(zip(r[4], r[3]))
                ends = (sym.strip(f["start"]), sym.strip(f["end"]))
            if ends:
                a, e = sym.norm(ends[0]), sym.norm(ends[1])
                for tb, fb, op, x, y, sw in guards.branch_conditions(b, prov):
                    for blk, o in ((tb, op), (fb, guards.CMP_NEG[op])):
                        if blk is None or not b.dominates(blk, bi):
                            continue
                        x1, y1 = sym.norm(sym.strip(x)), sym.norm(sym.strip(y))
                        if (x1 == a and y1 == e and o in ("Le", "Lt")) or (x1 == e and y1 == a and o in ("Ge", "Gt")):
                            return "range bounds ordered by a dominating comparison (start %s end)" % ("<=" if o in ("Le", "Ge") else "<")
            return None
        if site.what in ("chunks", "chunks_exact", "windows", "step_by"):
            n = sym.strip(prov.op(t["args"][1]))
            v = const_val(fx, n)
            if v is not None and v > 0:
                return "constant chunk/step size %s > 0" % v
            if n[0] == "call" and (n[1] or "").endswith(("::max", "cmp::max")) and len(n[2]) == 2:
                for a in n[2]:
                    av = const_val(fx, a)
                    if av is not None and av > 0:
                        return "chunk/step size is max(_, %s) > 0" % av
            return None
    return None


INT_BITS = {"u8": (0, 8), "u16": (0, 16), "u32": (0, 32), "u64": (0, 64), "usize": (0, 64), "i8": (1, 8), "i16": (1, 16), "i32": (1, 32), "i64": (1, 64), "isize": (1, 64), "u128": (0, 128), "i128": (1, 128)}


def int_fits(frm, to):
    if frm not in INT_BITS or to not in INT_BITS:
        return False
    fs, fb = INT_BITS[frm]
    ts, tb = INT_BITS[to]
    if fs == 0 and ts == 0:
        return fb <= tb and not (frm == "usize" and to != "usize" and tb < 64) and not (to == "usize" and fb > 32)
    if fs == 0 and ts == 1:
        return fb < tb
    if fs == 1 and ts == 1:
        return fb <= tb
    return False


def const_val(fx, t):
    t = sym.strip(t)
    if t[0] == "c":
        if t[1] is None and isinstance(t[3], str):
            m = re.match(r"^(-?[0-9.]+(?:[eE][+-]?[0-9]+)?)_?f(?:32|64)$", t[3])
            if m:
                return float(m.group(1))
        return t[1]
    if t[0] == "uneval":
        c = fx.const(t[1])
        if c and c.get("val") is not None:
            return c["val"]
    if t[0] == "cast":
        return const_val(fx, t[4])
    return None


def variant_guard(b, prov, use_bb, recv_op):
    """use is dominated by the true edge of `place.is_some()` / `is_ok()` (or false edge of is_none/is_err)
    on the same receiver place"""
    recv = place_root(prov, recv_op)
    if recv is None:
        return None
    for bi, blk in enumerate(b.blocks):
        t = blk["t"]
        if t["k"] != "switch" or t.get("dty") != "bool" or not b.reachable(bi):
            continue
        term = prov.op(t["discr"])
        neg = False
        while term[0] == "un" and term[1] == "Not":
            neg = not neg
            term = term[2]
        term = sym.strip(term)
        if term[0] != "call":
            continue
        nm = term[1] or ""
        pos = nm.endswith(("::is_some", "::is_ok"))
        negm = nm.endswith(("::is_none", "::is_err"))
        if not (pos or negm) or not term[2]:
            continue
        tgt = sym.strip(term[2][0])
        while tgt[0] in ("ref", "deref"):
            tgt = sym.strip(tgt[1])
        if tgt != recv:
            continue
        false_b = [tg for v, tg in t["arms"] if v == 0]
        if not false_b:
            continue
        tb, fb = t["otherwise"], false_b[0]
        want_true = pos != neg
        blk_ok = tb if want_true else fb
        if b.preds(blk_ok) == [bi] and b.dominates(blk_ok, use_bb):
            return "dominated by %s test on the same place" % nm.split("::")[-1]
    return None


def place_root(prov, op):
    t = sym.strip(prov.op(op))
    while t[0] in ("ref", "deref"):
        t = sym.strip(t[1])
    if t[0] in ("arg", "local", "field", "call", "variant"):
        return t
    return None


def nonempty_guard(b, prov, use_bb, recv_call):
    """`x.last().unwrap()` etc. dominated by `!x.is_empty()` / `x.len() > 0` on the same x"""
    if not recv_call[2]:
        return None
    coll = sym.strip(recv_call[2][0])
    while coll[0] in ("ref", "deref"):
        coll = sym.strip(coll[1])
    for tb, fb, op, x, y, sw in guards.branch_conditions(b, prov):
        for blk, o in ((tb, op), (fb, guards.CMP_NEG[op])):
            if blk is None or not b.dominates(blk, use_bb):
                continue
            x1, y1 = sym.strip(x), sym.strip(y)

            def is_len_of(tt):
                if tt[0] == "call" and (tt[1] or "").endswith("::len") and tt[2]:
                    r = sym.strip(tt[2][0])
                    while r[0] in ("ref", "deref"):
                        r = sym.strip(r[1])
                    return r == coll
                return False
            if is_len_of(x1) and y1[0] == "c" and y1[1] is not None and ((o == "Gt" and y1[1] >= 0) or (o == "Ge" and y1[1] >= 1) or (o == "Ne" and y1[1] == 0) or (o == "Eq" and y1[1] >= 1)):
                return "dominated by len() %s %s on the same collection" % (o, y1[1])
            if is_len_of(y1) and x1[0] == "c" and x1[1] is not None and ((o == "Lt" and x1[1] >= 0) or (o == "Le" and x1[1] >= 1)):
                return "dominated by %s %s len() on the same collection" % (x1[1], o)
    # is_empty() bool switch
    for bi, blk in enumerate(b.blocks):
        t = blk["t"]
        if t["k"] != "switch" or t.get("dty") != "bool" or not b.reachable(bi):
            continue
        term = prov.op(t["discr"])
        neg = False
        while term[0] == "un" and term[1] == "Not":
            neg = not neg
            term = term[2]
        term = sym.strip(term)
        if term[0] == "call" and (term[1] or "").endswith("::is_empty") and term[2]:
            r = sym.strip(term[2][0])
            while r[0] in ("ref", "deref"):
                r = sym.strip(r[1])
            if r != coll:
                continue
            false_b = [tg for v, tg in t["arms"] if v == 0]
            if not false_b:
                continue
            blk_ok = false_b[0] if not neg else t["otherwise"]
            if b.preds(blk_ok) == [bi] and b.dominates(blk_ok, use_bb):
                return "dominated by !is_empty() on the same collection"
    return None


def slice_guard(b, prov, use_bb, t):
    """x[a..b] discharged when the range ends are constants within a fixed-size array, or when a
    comparison `end <= x.len()` (same x) dominates; x[..n] / x[n..] with n <= len() guard likewise."""
    recv = sym.strip(prov.op(t["args"][0]))
    while recv[0] in ("ref", "deref"):
        recv = sym.strip(recv[1])
    rng = sym.strip(prov.op(t["args"][1]))
    if rng[0] != "agg":
        return None
    fields = dict(zip(rng[4], rng[3])) if rng[4] else {}
    ends = []
    for k in ("start", "end"):
        if k in fields:
            ends.append(sym.strip(fields[k]))
    # fixed-size array with constant bounds
    rty = t["callee"]["args"][0]
    m = re.match(r"^\[.*; (\d+)\]$", rty)
    if m and all(e[0] == "c" and e[1] is not None and e[1] <= int(m.group(1)) for e in ends):
        return "constant range within a fixed-size array of %s" % m.group(1)
    # every non-constant-zero end compared against len() of the same receiver
    need = [e for e in ends if not (e[0] == "c" and e[1] == 0)]
    if not need:
        return "range 0.. of the receiver"
    conds = guards.branch_conditions(b, prov)
    ok_all = True
    for e in need:
        ok = False
        for tb, fb, op, x, y, sw in conds:
            for blk, o in ((tb, op), (fb, guards.CMP_NEG[op])):
                if blk is None or not b.dominates(blk, use_bb):
                    continue
                x1, y1 = sym.strip(x), sym.strip(y)

                def is_len_of(tt):
                    if tt[0] == "call" and (tt[1] or "").endswith("::len") and tt[2]:
                        r = sym.strip(tt[2][0])
                        while r[0] in ("ref", "deref"):
                            r = sym.strip(r[1])
                        return r == recv
                    return False
                if o in ("Le", "Lt") and x1 == e and is_len_of(y1):
                    ok = True
                if o in ("Ge", "Gt") and y1 == e and is_len_of(x1):
                    ok = True
        ok_all = ok_all and ok
    if ok_all and len(need) == 1:
        return "range end guarded by a comparison with len() of the same slice"
    return None
