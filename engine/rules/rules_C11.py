"""C11 — WOFF2 decoding: decoder constants equal the specification (tables read, not run)."""
import re
import os
import sys

import sym
import tableread
from facts import callee_is

sys.path.insert(0, os.path.join(os.path.dirname(os.path.abspath(__file__)), "..", ".."))
from oracle import woff2 as O  # noqa: E402

LEVEL = "other"
EXPLANATION = (
    "Decides the clause 'the decoder's constant tables equal the WOFF2 specification' exhaustively by reading the evaluated "
    "initialisers (rustc const-eval) and match tables from MIR: all 128 rows x 7 fields of COORD_LUT against a table "
    "constructed independently from the W3C construction rules (oracle/woff2.py); the 63 known table tags in flag order; the "
    "255UInt16 arm set {253,254,255} with its offsets (LOWEST_UCODE, x2); the UIntBase128 constants (5-byte bound, 0x80 "
    "leading-zero test, 0xFE000000 overflow mask, shift 7, 0x7F payload mask). These are necessary conditions of correct "
    "decoding: any differing row mis-decodes some conforming encoder output."
)
NOT_DECIDED = ("stream bookkeeping of the transformed glyf table, bounding-box and hmtx reconstruction, table directory offsets, "
               "collection sharing, byte identity of untransformed tables; the XYTriplet::dx/dy bit arithmetic.")
ASSUMPTIONS = ["target is little-endian x86_64 (static initialiser bytes are decoded little-endian)"]


def t11_lut(run, fx, floors):
    run.rule("T11-LUT", "every row of woff2::lut::COORD_LUT equals the triplet table constructed from the WOFF2 spec rules (byte_count = spec bytes - 1 flag byte)")
    st = fx.static("woff2::lut::COORD_LUT")
    rows = tableread.static_rows(st) if st else None
    if rows is None:
        run.anchor_missing("T11-LUT", "static woff2::lut::COORD_LUT as an evaluated array of structs")
        return
    want = O.triplets()
    if len(rows) != len(want):
        run.fail("T11-LUT", "COORD_LUT:len", "table has %d rows, the specification has %d" % (len(rows), len(want)), "%s:%s" % (st["file"], st["line"]))
        return
    for i, (r, w) in enumerate(zip(rows, want)):
        diffs = []
        if r["byte_count"] != w["bytes"] - 1:
            diffs.append("byte_count %d != %d" % (r["byte_count"], w["bytes"] - 1))
        for fld, key in (("x_bits", "x_bits"), ("y_bits", "y_bits"), ("delta_x", "dx"), ("delta_y", "dy")):
            if r[fld] != w[key]:
                diffs.append("%s %d != %d" % (fld, r[fld], w[key]))
        # a sign is observable only when the axis can be non-zero
        if w["x_neg"] is not None and bool(r["x_is_negative"]) != w["x_neg"]:
            diffs.append("x_is_negative %s != %s" % (bool(r["x_is_negative"]), w["x_neg"]))
        if w["y_neg"] is not None and bool(r["y_is_negative"]) != w["y_neg"]:
            diffs.append("y_is_negative %s != %s" % (bool(r["y_is_negative"]), w["y_neg"]))
        if diffs:
            run.fail("T11-LUT", "COORD_LUT[%d]" % i, "row %d differs from the specification: %s" % (i, "; ".join(diffs)), "%s:%s" % (st["file"], st["line"]))
        else:
            run.ok("T11-LUT", "row %d: %s" % (i, r) if i in (0, 20, 84, 127) else None)


def t11_tags(run, fx, floors):
    run.rule("T11-TAGS", "woff2::lut::KNOWN_TABLE_TAGS lists the 63 known tags of the WOFF2 table directory format in flag order")
    st = fx.static("woff2::lut::KNOWN_TABLE_TAGS")
    rows = tableread.static_rows(st) if st else None
    if rows is None:
        run.anchor_missing("T11-TAGS", "static woff2::lut::KNOWN_TABLE_TAGS as an evaluated array")
        return
    if len(rows) != 63:
        run.fail("T11-TAGS", "KNOWN_TABLE_TAGS:len", "table has %d entries, the specification has 63" % len(rows), "%s:%s" % (st["file"], st["line"]))
        return
    for i, (v, w) in enumerate(zip(rows, O.KNOWN_TAGS)):
        s = tableread.tag_str(v)
        if s != w:
            run.fail("T11-TAGS", "KNOWN_TABLE_TAGS[%d]" % i, "flag %d maps to %r, the specification says %r" % (i, s, w), "%s:%s" % (st["file"], st["line"]))
        else:
            run.ok("T11-TAGS", "flag %d -> %r" % (i, s) if i in (0, 36, 62) else None)
    # the directory reader must use the table with the 6-bit flag and treat 63 as "tag follows"
    c = fx.const("woff2::BITS_0_TO_5")
    if c is None or c.get("val") != 0x3F:
        run.fail("T11-TAGS", "BITS_0_TO_5", "flag mask constant is %s, expected 0x3F" % (c and c.get("val")), "")
    else:
        run.ok("T11-TAGS", "BITS_0_TO_5 == 0x3F")


def fold(t):
    """constant folding of literal arithmetic in a term"""
    t = sym.strip(t)
    if t[0] == "c":
        return t[1]
    if t[0] == "uneval":
        return None
    if t[0] == "bin":
        a, b = fold(t[2]), fold(t[3])
        if a is None or b is None:
            return None
        op = t[1]
        if op == "Mul":
            return a * b
        if op == "Add":
            return a + b
        if op == "Sub":
            return a - b
    if t[0] == "cast":
        return fold(t[4])
    return None


def const_values_in(fx, body, resolve_named=True):
    """all integer constants appearing in a body (operands), with named consts resolved through the const table"""
    vals = []
    def visit_op(op):
        if op and op.get("k") == "const":
            if op.get("val") is not None:
                vals.append(op["val"])
            elif op.get("uneval") and resolve_named:
                c = fx.const(op["uneval"])
                if c and c.get("val") is not None:
                    vals.append(c["val"])
    for blk in body.blocks:
        for s in blk["s"]:
            if s["k"] == "assign":
                rv = s["rv"]
                for k in ("op", "a", "b"):
                    if isinstance(rv.get(k), dict):
                        visit_op(rv[k])
                for f in rv.get("fields", []):
                    visit_op(f)
        t = blk["t"]
        for a in t.get("args", []):
            visit_op(a)
        for a in t.get("ops", []):
            visit_op(a)
    return vals


def t11_packed(run, fx, floors):
    run.rule("T11-P16", "255UInt16 reader: arms exactly {253,254,255}; 253 reads a u16; 254 adds LOWEST_UCODE*2; 255 adds LOWEST_UCODE; LOWEST_UCODE == 253")
    b = fx.body("<woff2::PackedU16 as binary::read::ReadBinary>::read")
    if b is None:
        run.anchor_missing("T11-P16", "<woff2::PackedU16 as ReadBinary>::read")
        return
    site = "%s:%s" % (b.file, b.line)
    c = fx.const("woff2::LOWEST_UCODE")
    lowest = c.get("val") if c else None
    if lowest != O.PACKED_U16["lowest_ucode"]:
        run.fail("T11-P16", "LOWEST_UCODE", "LOWEST_UCODE is %s, the specification says 253" % lowest, site)
    else:
        run.ok("T11-P16", "LOWEST_UCODE == 253")
    sw = None
    for bi in b.rpo():
        t = b.term(bi)
        if t["k"] == "switch" and t.get("dty") == "u8":
            sw = t
            break
    if sw is None:
        run.fail("T11-P16", "PackedU16:dispatch", "no switch on the code byte found", site)
        return
    arms = {v: tgt for v, tgt in sw["arms"]}
    if set(arms) != {253, 254, 255}:
        run.fail("T11-P16", "PackedU16:arms", "code arms are %s, the specification defines 253, 254, 255" % sorted(arms), site)
        return
    run.ok("T11-P16", "arm set {253,254,255}")

    def first_call(bb):
        seen = set()
        while bb not in seen:
            seen.add(bb)
            t = b.term(bb)
            if t["k"] == "call":
                return bb, t
            if t["k"] == "goto":
                bb = t["target"]
            else:
                return None, None
        return None, None
    bb, t = first_call(arms[253])
    if t is None or not callee_is(t, "::read_u16be"):
        run.fail("T11-P16", "PackedU16:253", "code 253 does not read a 16-bit value", site)
    else:
        run.ok("T11-P16", "253 -> read_u16be")
    prov = sym.Prov(b)
    for code, mult in ((254, 2), (255, 1)):
        bb, t = first_call(arms[code])
        if t is None or not callee_is(t, "::read_u8"):
            run.fail("T11-P16", "PackedU16:%d" % code, "code %d does not read one more byte" % code, site)
            continue
        # the following map() closure adds the offset
        nb = t.get("target")
        t2 = b.term(nb) if nb is not None else None
        cl = None
        if t2 and t2["k"] == "call" and callee_is(t2, "::map") and len(t2["args"]) == 2:
            ct = sym.strip(prov.op(t2["args"][1]))
            if ct[0] == "agg" and ct[1] == "closure":
                pass
            for st in b.stmts(nb):
                if st["k"] == "assign" and st["rv"]["k"] == "agg" and st["rv"].get("agg") == "closure":
                    cl = fx.by_dp.get(st["rv"]["closure_dp"])
        if cl is None:
            run.fail("T11-P16", "PackedU16:%d" % code, "cannot find the closure that adds the offset for code %d" % code, site)
            continue
        expect = O.PACKED_U16["lowest_ucode"] * mult
        got = None
        try:
            sl = sym.StraightLine(cl)
            r = sym.strip(sl.ret)
            if r[0] == "bin" and r[1] == "Add":
                for x, y in ((r[2], r[3]), (r[3], r[2])):
                    k = fold_named(fx, y)
                    xs = sym.show(sym.strip(x))
                    if k is not None and "value" in xs:
                        got = k
        except sym.StraightLine.Shape:
            pass
        if got != expect:
            run.fail("T11-P16", "PackedU16:%d:offset" % code, "code %d adds %s to the byte, the specification says %d" % (code, got, expect), "%s:%s" % (cl.file, cl.line))
        else:
            run.ok("T11-P16", "%d -> read_u8 + %d" % (code, expect))


def fold_named(fx, t):
    t = sym.strip(t)
    if t[0] == "uneval":
        c = fx.const(t[1])
        return c.get("val") if c else None
    if t[0] == "c":
        return t[1]
    if t[0] == "bin":
        a, b = fold_named(fx, t[2]), fold_named(fx, t[3])
        if a is None or b is None:
            return None
        return {"Mul": a * b, "Add": a + b, "Sub": a - b}.get(t[1])
    if t[0] == "cast":
        return fold_named(fx, t[4])
    return None


def t11_base128(run, fx, floors):
    run.rule("T11-B128", "UIntBase128 reader uses the specification's constants: at most 5 bytes, leading 0x80 rejected, overflow mask 0xFE000000, shift 7, payload mask 0x7F, continuation bit 0x80")
    b = fx.body("<woff2::U32Base128 as binary::read::ReadBinary>::read")
    if b is None:
        run.anchor_missing("T11-B128", "<woff2::U32Base128 as ReadBinary>::read")
        return
    site = "%s:%s" % (b.file, b.line)
    prov = sym.Prov(b)
    # roles: Range end, comparisons, masks, shift
    found = {"range_end": None, "shift": set(), "and_masks": set(), "eq_consts": set()}
    for blk in b.blocks:
        for s in blk["s"]:
            if s["k"] != "assign":
                continue
            rv = s["rv"]
            if rv["k"] == "agg" and rv.get("adt", "").endswith("ops::Range"):
                f = dict(zip(rv["fnames"], rv["fields"]))
                found["range_end"] = f["end"].get("val")
                found["range_start"] = f["start"].get("val")
            if rv["k"] == "bin":
                for side in ("a", "b"):
                    o = rv[side]
                    if o["k"] == "const" and o.get("val") is not None:
                        if rv["bop"] == "BitAnd":
                            found["and_masks"].add(o["val"])
                        if rv["bop"] in ("Shl", "ShlUnchecked"):
                            found["shift"].add(o["val"])
                        if rv["bop"] in ("Eq", "Ne"):
                            found["eq_consts"].add(o["val"])
    probs = []
    U = O.UINT_BASE128
    if found["range_end"] != U["max_bytes"] or found.get("range_start") != 0:
        probs.append("loop range is %s..%s, expected 0..5" % (found.get("range_start"), found["range_end"]))
    if U["shift"] not in found["shift"] or len(found["shift"]) != 1:
        probs.append("shift amounts %s, expected {7}" % sorted(found["shift"]))
    if found["and_masks"] != {U["overflow_mask"], U["payload_mask"], U["more"]}:
        probs.append("bit masks %s, expected {0xFE000000, 0x7F, 0x80}" % sorted(hex(x) for x in found["and_masks"]))
    if U["leading_zero"] not in found["eq_consts"]:
        probs.append("no comparison of the first byte with 0x80 (leading zero rule)")
    # the leading-zero test is about the FIRST byte only: the comparison with 0x80 is dominated by the true side of `i == 0`
    import guards
    conds = guards.branch_conditions(b, prov)
    def is_k(z, k):
        z = sym.strip(z)
        return z[0] == "c" and z[1] == k

    def land(blk):
        seen = set()
        while blk is not None and blk not in seen and not b.stmts(blk) and b.term(blk)["k"] == "goto":
            seen.add(blk)
            blk = b.term(blk)["target"]
        return blk

    # (true block, false block, switch block) of the `i == 0` tests and of the `byte == 0x80` tests, in either polarity
    def tests(pred):
        out = []
        for tb, fb_, op, x, y, sw in conds:
            if op in ("Eq", "Ne") and pred(x, y):
                out.append((tb, fb_, sw) if op == "Eq" else (fb_, tb, sw))
        return out
    first = tests(lambda x, y: (is_k(x, 0) or is_k(y, 0)) and not (is_k(x, 0x80) or is_k(y, 0x80)))
    lead = tests(lambda x, y: (is_k(x, 0x80) or is_k(y, 0x80)) and not any(sym.strip(z)[0] == "bin" for z in (x, y)))
    for ltb, lfb, lsw in lead:
        # `i == 0 && byte == 0x80`: the byte is only looked at for the first byte
        if any(ftb is not None and b.dominates(ftb, lsw) for ftb, ffb, fsw in first):
            continue
        # `byte == 0x80 && i == 0`: the first-byte test follows at once, and "not first" continues where "not 0x80" continues
        def other(sw, blk):
            rest = [x for x in b.succs(sw) if x != blk and b.term(x)["k"] != "unreachable"]
            return rest[0] if len(rest) == 1 else None
        if any(ltb is not None and ltb == fsw and ftb is not None and other(fsw, ftb) is not None and other(lsw, ltb) is not None
               and land(other(fsw, ftb)) == land(other(lsw, ltb)) for ftb, ffb, fsw in first):
            continue
        probs.append("the comparison of a byte with 0x80 is not restricted to the first byte (i == 0): a canonical encoding whose middle group is zero, e.g. 81 80 00, is rejected")
        break
    if probs:
        run.fail("T11-B128", "U32Base128:constants", "; ".join(probs), site)
    else:
        run.ok("T11-B128", "range 0..5, shift 7, masks {0xFE000000,0x7F,0x80}, leading-zero test 0x80")


def t11_hmtx(run, fx):
    import sym
    rule = "T11-HMTX"
    run.rule(rule, "transformed hmtx flags (WOFF2 section 5.4): bit 0 = lsb[] of the proportional glyphs is absent, bit 1 = leftSideBearing[] of the "
                   "monospaced glyphs is absent; each presence predicate tests its own flag constant against empty()")
    want = {"lsb_is_present": ("woff2::HmtxTableFlag::LSB_ABSENT", 1), "left_side_bearing_is_present": ("woff2::HmtxTableFlag::LEFT_SIDE_BEARING_ABSENT", 2)}
    for fn, (cpath, bit) in sorted(want.items()):
        b = fx.body("woff2::HmtxTableFlag::" + fn)
        if b is None:
            run.anchor_missing(rule, "woff2::HmtxTableFlag::" + fn)
            continue
        consts = []
        for bi, t in b.calls():
            for a in t["args"]:
                if a["k"] == "const" and a.get("uneval"):
                    consts.append(a["uneval"])
        c = fx.const(cpath)
        val = None
        if c is not None:
            val = c.get("val")
            if val is None and c.get("bytes"):
                val = int(c["bytes"][:2], 16)
        if consts == [cpath] and val == bit:
            run.ok(rule, "%s tests %s (= %d)" % (fn, cpath.split("::")[-1], bit))
        else:
            run.fail(rule, "hmtx-flag:%s" % fn, "%s tests %s (value %s); expected %s = %d" % (fn, consts, val, cpath.split("::")[-1], bit), "%s:%s" % (b.file, b.line))

    # each flag decides about its own array: the reader consults both predicates (a branch that tests the other array's bit reads or
    # reconstructs the wrong number of values whenever the two bits differ)
    rd = [b for b in fx.bodies if b.kind != "Closure" and b.path.startswith("<woff2::Woff2HmtxTable as binary::read::ReadBinaryDep")]
    if len(rd) == 1:
        seen = {}
        for bi, t in rd[0].calls():
            nm = (t["callee"].get("path") or "").split("::")[-1]
            if nm in want and rd[0].reachable(bi):
                seen[nm] = seen.get(nm, 0) + 1
        missing = sorted(set(want) - set(seen))
        if missing:
            run.fail(rule, "hmtx-flag-unused:%s" % ",".join(missing), "Woff2HmtxTable::read_dep never consults %s (it calls %s): the presence of one of the two "
                     "arrays is decided by the other array's flag" % (", ".join(missing), ", ".join("%s x%d" % kv for kv in sorted(seen.items())) or "neither predicate"),
                     "%s:%s" % (rd[0].file, rd[0].line))
        else:
            run.ok(rule, "read_dep consults both presence predicates")
    else:
        run.anchor_missing(rule, "<woff2::Woff2HmtxTable as ReadBinaryDep>::read_dep")


def _xmin_reads(run, rule, b):
    import sym
    prov = sym.Prov(b)
    n = 0
    for bi, t in b.calls():
        ga = " ".join(t["callee"].get("args") or [])
        p = t["callee"].get("path") or ""
        if "BoundingBox" not in ga or not (p.endswith("::read") or p.endswith("read_dep")):
            continue
        n += 1
        if "ReadCtxt" not in p:
            run.fail(rule, "xmin:header", "x_min reads the BoundingBox with %s at the start of the glyph data: numberOfContours is taken for xMin" % p.split("::")[-3], b.loc(t))
            continue
        recv = sym.norm(sym.strip(prov.op(t["args"][0])))
        pre = [bj for bj, t2 in b.calls() if (t2["callee"].get("path") or "").endswith(("read_i16be", "read_u16be")) and b.dominates(bj, bi)
               and sym.norm(sym.strip(prov.op(t2["args"][0]))) == recv]
        if pre:
            run.ok(rule, "x_min: read_i16be (numberOfContours), then the BoundingBox, on the same cursor")
        else:
            run.fail(rule, "xmin:header", "x_min reads the BoundingBox without first consuming numberOfContours on the same cursor", b.loc(t))
    return n


def t11_xmin(run, fx):
    rule = "T11-XMIN"
    run.rule(rule, "hmtx reconstruction (WOFF2 5.4: an omitted lsb is the glyph's xMin): for a glyph that is still raw bytes, xMin is read from "
                   "the glyph header after numberOfContours - Woff2HmtxTable::x_min reads an i16 from the same cursor before it reads the BoundingBox; for a "
                   "parsed glyph it is the stored bounding box - nothing that computes a box from points is reachable from x_min")
    b = fx.body("woff2::Woff2HmtxTable::x_min")
    if b is None:
        return run.anchor_missing(rule, "woff2::Woff2HmtxTable::x_min")
    import sym
    n = 0
    # x_min and the private helpers of woff2.rs it hands the raw glyph bytes to are read as one group
    for hb in [y for x in fx.with_helpers(b, "woff2::") for y in fx.family(x)]:
        n += _xmin_reads(run, rule, hb)
    if n == 0:
        run.anchor_missing(rule, "BoundingBox read in x_min")
    # a glyph that was already parsed: xMin is the bounding box the font stores for it (the transformed glyf stream may carry an explicit box
    # that differs from the extent of the points), not one recomputed from the points
    roots = fx.nodes_by_dp().get(b.dp, [])
    if not roots:
        return run.anchor_missing(rule, "instance-graph node of x_min")
    seen = fx.reachable_nodes(roots)
    recompute = sorted({fx.nodes[v]["path"] for v in seen if re.search(r"BoundingBox::from_points|::recalculate_bounding_box|::calculate_bounding_box", fx.nodes[v]["path"])})
    if recompute:
        run.fail(rule, "xmin:recomputed", "x_min reaches %s: for a parsed glyph the omitted lsb is taken from a bounding box recomputed from the points, not from the "
                 "box stored in the (transformed) glyf table, which may be an explicit one" % recompute[0], "%s:%s" % (b.file, b.line))
    else:
        run.ok(rule, "x_min: no bounding-box computation reachable (%d functions reachable); a parsed glyph yields its stored box" % len(seen))


def t11_lsb(run, fx):
    rule = "T11-LSB"
    run.rule(rule, "hmtx reconstruction (WOFF2 5.4): leftSideBearing[] holds the bearings of the glyphs numberOfHMetrics..numGlyphs only. When the "
                   "array is omitted it is rebuilt from the xMin of exactly those glyphs: the value stored in HmtxTable.left_side_bearings that "
                   "comes from glyf.records() skips the first num_h_metrics records (as the sibling arm reads num_glyphs - num_h_metrics entries "
                   "from the stream)")
    import sym
    import reach
    bs = [b for b in fx.bodies if b.kind != "Closure" and b.path.startswith("<woff2::Woff2HmtxTable as binary::read::ReadBinaryDep>::read_dep")]
    if not bs:
        return run.anchor_missing(rule, "<woff2::Woff2HmtxTable as ReadBinaryDep>::read_dep")
    b = bs[0]
    prov = sym.Prov(b)
    n = 0
    for bi, blk in enumerate(b.blocks):
        for st in blk["s"]:
            if not (st["k"] == "assign" and st["rv"]["k"] == "agg" and (st["rv"].get("adt") or "").endswith("HmtxTable")):
                continue
            f = dict(zip(st["rv"]["fnames"], st["rv"]["fields"]))
            if "left_side_bearings" not in f:
                continue
            op = f["left_side_bearings"]
            terms = []
            t = sym.strip(prov.op(op))
            if t[0] == "local":
                for d in b.defs().get(t[1], []):
                    terms.append(sym.strip(reach.def_term(b, prov, d)))
            else:
                terms.append(t)
            def from_records(t, depth=0):
                """the value is computed from glyf.records(), directly or inside a private helper of the module (`Self::x_mins(glyf)`)"""
                for x in sym.walk(t):
                    if x[0] != "call":
                        continue
                    c = x[4] or x[1] or ""
                    if c.endswith("::records"):
                        return True
                    hb = fx.body(x[1]) if (x[1] or "").startswith("woff2::") and depth < 2 else None
                    if hb is not None and hb.kind != "Closure" and from_records(sym.Prov(hb).local(0), depth + 1):
                        return True
                return False

            for t in terms:
                if not from_records(t):
                    continue      # the arm that reads the array from the stream
                n += 1
                skips = [x for x in sym.walk(t) if x[0] == "call" and (x[4] or x[1] or "").endswith("Iterator::skip")]
                ok = any(any(y[0] == "arg" or (y[0] == "field") or y[0] == "local" for y in sym.walk(x[2][1])) and
                         "num_h_metrics" in sym.show(x[2][1]) for x in skips if len(x[2]) > 1)
                sliced = any(x[0] == "call" and (x[4] or x[1] or "").endswith(("Index::index", "::get")) and "num_h_metrics" in sym.show(x) for x in sym.walk(t))
                if ok or sliced:
                    run.ok(rule, "left_side_bearings is rebuilt from the records after the first num_h_metrics")
                else:
                    run.fail(rule, "lsb-all-glyphs:Woff2HmtxTable::read_dep", "the omitted leftSideBearing[] array is rebuilt from the xMin of ALL glyphs: it gets numGlyphs entries "
                             "instead of numGlyphs - numberOfHMetrics, so glyph numberOfHMetrics + k receives the bearing of glyph k", b.loc(st))
    if n == 0:
        run.anchor_missing(rule, "left_side_bearings rebuilt from glyf.records()")


def t11_coll(run, fx):
    rule = "T11-COLL"
    run.rule(rule, "WOFF2 collection directory: CollectionHeader is version (UInt32), numFonts (255UInt16), then numFonts CollectionFontEntry records of "
                   "numTables (255UInt16), flavor (UInt32), index[numTables] (255UInt16 each). Every read in Directory::read / FontEntry::read and "
                   "their closures is one of these types - a table index is a variable-length 255UInt16, not a byte")
    allowed = {"<woff2::collection::FontEntry as binary::read::ReadBinary>::read": ("PackedU16", "read_u32be"),
               "<woff2::collection::Directory as binary::read::ReadBinary>::read": ("PackedU16", "read_u32be", "FontEntry")}
    for path, ok in sorted(allowed.items()):
        b = fx.body(path)
        if b is None:
            run.anchor_missing(rule, path)
            continue
        bad, n, packed_in_closure, packed_sites = [], 0, False, 0
        for fb in fx.family(b):
            for bi, t in fb.calls():
                p = t["callee"].get("path") or ""
                if not p.startswith("binary::read::ReadCtxt::<'a>::"):
                    continue
                name = p.split("::")[-1]
                if name in ("check", "check_version", "scope", "bytes_available"):
                    continue
                n += 1
                ga = (t["callee"].get("args") or [""])[-1]
                what = name if name.startswith("read_") and name not in ("read_dep",) and not ga else ga.split("::")[-1]
                if name in ("read", "read_dep"):
                    what = ga.split("::")[-1]
                if not any(what == k or name == k for k in ok):
                    bad.append("%s::<%s>" % (name, ga) if ga else name)
                if what == "PackedU16":
                    packed_sites += 1
                    # the per-index read sits in a closure (map/collect) or in a loop of the function itself
                    if fb.kind == "Closure" or any(bi in body_ for _h, body_, _s in __import__("loops").natural_loops(fb)):
                        packed_in_closure = True
        if bad:
            run.fail(rule, "collection:%s" % path.split("::")[2].split(" ")[0], "%s reads %s: the collection directory consists of UInt32 and 255UInt16 values only" % (path, sorted(set(bad))),
                     "%s:%s" % (b.file, b.line))
        elif "FontEntry as" in path and not packed_in_closure:
            run.fail(rule, "collection:FontEntry:indices", "%s does not read its table indices as 255UInt16 values one by one" % path, "%s:%s" % (b.file, b.line))
        else:
            run.ok(rule, "%s: %d reads, all UInt32 / 255UInt16" % (path.split(" as ")[0].lstrip("<"), n))


def check(run, fx, tier, floors=True):
    import ignored
    ignored.run_for(run, fx, 'C11', floors)
    import speclayout
    speclayout.rule_layouts(run, fx, "T11-LAYOUT", ["woff2"], floors)
    if floors or fx.body("<woff2::collection::FontEntry as binary::read::ReadBinary>::read") is not None:
        t11_coll(run, fx)
    if floors or fx.body("woff2::HmtxTableFlag::lsb_is_present") is not None:
        t11_hmtx(run, fx)
        t11_xmin(run, fx)
        t11_lsb(run, fx)
    if floors or any(b.root.endswith("Woff2TableProvider::new") for b in fx.bodies):
        import rules_C09
        rules_C09.t09_loca_woff2(run, fx)
    t11_lut(run, fx, floors)
    t11_tags(run, fx, floors)
    t11_packed(run, fx, floors)
    t11_base128(run, fx, floors)
    if floors or fx.adt("tables::glyf::CompositeGlyphs") is not None:
        # the glyf composite codec is shared: reader (used by the WOFF2 reconstruction) and writer must agree on the instruction flag
        import rules_C15
        rules_C15.c15_g(run, fx)
    if floors:
        run.floor("T11-LUT", "rows compared", run.by_rule["T11-LUT"]["obligations"], 128)
        run.floor("T11-TAGS", "tags compared", run.by_rule["T11-TAGS"]["obligations"], 64)
