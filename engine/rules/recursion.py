"""Rule C01-a: every cycle of the per-instance call graph passes a depth guard.

For each recursive SCC (with at least one local node) find a counter assignment — one integer or
bool parameter per function of the SCC — such that
  (1) monotone threading: every intra-SCC call passes callee.counter = caller.counter + c with all
      c >= 0 (or all <= 0); a constant is accepted only as the latch value `true` of a bool counter;
  (2) strict step on every cycle: deleting the edges with c != 0 (or latch edges) leaves the SCC acyclic;
  (3) guard on every cycle: deleting the edges whose call site is dominated by a comparison of the
      caller's counter with a bound (right polarity) leaves the SCC acyclic.
Entry calls from outside the SCC must pass a constant when the guard form depends on the start value."""
import itertools
from collections import defaultdict

import guards
import sym

INT_TYPES = ("u8", "u16", "u32", "u64", "usize", "i8", "i16", "i32", "i64", "isize", "bool")


def capture_name(body, t):
    """closure bodies: term of a captured variable -> its name (from debuginfo), else None"""
    # shapes: deref(field(deref(arg1), N)) (by ref) or field(deref(arg1), N) / field(arg1, N) (by value)
    x = t
    if x[0] == "deref":
        x = x[1]
    if x[0] != "field":
        return None
    base = x[1]
    if base[0] == "deref":
        base = base[1]
    if base[0] != "arg" or base[1] != 1:
        return None
    idx = x[2]
    for c in body.j.get("captures", []):
        fs = [e for e in c["p"]["p"] if isinstance(e, dict) and "f" in e]
        if c["p"]["l"] == 1 and fs and (fs[0]["f"] == idx or fs[0].get("n") == idx):
            return c["name"]
    return None


def unwrap_casts(t):
    t = sym.strip(t)
    while t[0] == "cast" and t[1] == "IntToInt":
        t = sym.strip(t[4])
    return t


class Family:
    def __init__(self, fx, sccs):
        self.fx = fx
        self.sccs = sccs  # list of lists of node ids (one per instantiation)
        self.local_paths = sorted({fx.nodes[i]["path"] for s in sccs for i in s if fx.nodes[i]["local"]})
        self.result = None

    def key(self):
        return "+".join(self.local_paths)


def families(fx):
    fams = defaultdict(list)
    for s in fx.sccs():
        loc = frozenset(fx.nodes[i]["dp"] for i in s if fx.nodes[i]["local"])
        if loc:
            fams[loc].append(s)
    return [Family(fx, v) for _, v in sorted(fams.items(), key=lambda kv: sorted(kv[0]))]


def acyclic(nodes, edges):
    """edges: list of (u, v); Kahn"""
    indeg = {n: 0 for n in nodes}
    adj = defaultdict(list)
    for u, v in edges:
        adj[u].append(v)
        indeg[v] += 1
    q = [n for n in nodes if indeg[n] == 0]
    seen = 0
    while q:
        n = q.pop()
        seen += 1
        for m in adj[n]:
            indeg[m] -= 1
            if indeg[m] == 0:
                q.append(m)
    return seen == len(nodes)


def analyse_family(fx, fam):
    """returns dict(ok, assignment, problems[list of (key, message, site)], detail)"""
    # representative: analyse every instantiation; all must pass with one assignment
    provs = {}

    def prov(b):
        if b.dp not in provs:
            provs[b.dp] = sym.Prov(b)
        return provs[b.dp]

    # candidate counter functions: local Fn/AssocFn in the SCCs
    cands = {}
    for s in fam.sccs:
        for i in s:
            n = fx.nodes[i]
            b = fx.by_dp.get(n["dp"]) if n["local"] else None
            if b is not None and b.kind != "Closure":
                ps = [k for k in range(b.arg_count) if b.local_ty(k + 1) in INT_TYPES]
                cands[b.dp] = ps
    names = sorted(cands)
    options = [[None] + cands[n] for n in names]
    best = None
    for combo in itertools.product(*options):
        assign = dict(zip(names, combo))
        if all(v is None for v in assign.values()):
            continue
        res = check_assignment(fx, fam, assign, prov)
        score = len(res["problems"])
        if best is None or score < best[0]:
            best = (score, assign, res)
        if score == 0:
            break
    if best is None:
        return {"ok": False, "assignment": None, "problems": [("no-counter", "no function of the cycle has an integer/bool parameter that could bound the recursion", "")], "detail": []}
    _, assign, res = best
    res["ok"] = not res["problems"]
    res["assignment"] = {fx.by_dp[k].path: (fx.by_dp[k].local_name(v + 1) or v) for k, v in assign.items() if v is not None}
    return res


def counter_matcher(fx, body, assign):
    """function deciding whether a term is the caller's counter; None if the caller has none"""
    root = fx.by_dp.get(body.root_dp)
    if root is None or assign.get(root.dp) is None:
        return None
    p = assign[root.dp]
    if body.kind != "Closure":
        def m(t):
            return t[0] == "arg" and t[1] == p + 1
        return m
    cname = root.local_name(p + 1)

    def mc(t):
        return cname is not None and capture_name(body, t) == cname
    return mc


def relation(t, is_counter):
    t = unwrap_casts(t)
    if is_counter and is_counter(t):
        return ("step", 0)
    if t[0] == "bin" and t[1] in ("Add", "Sub") and is_counter:
        a, c = unwrap_casts(t[2]), unwrap_casts(t[3])
        if is_counter(a) and c[0] == "c" and c[1] is not None:
            return ("step", c[1] if t[1] == "Add" else -c[1])
    if t[0] == "call" and is_counter and t[1] and ("saturating_sub" in t[1] or "wrapping_sub" in t[1] or "saturating_add" in t[1]):
        a, c = unwrap_casts(t[2][0]), unwrap_casts(t[2][1])
        if is_counter(a) and c[0] == "c" and c[1] is not None:
            return ("step", -c[1] if "sub" in t[1] else c[1])
    if t[0] == "c":
        return ("const", t[1] if t[1] is not None else t[3])
    if t[0] == "uneval":
        return ("const", t[1])
    return ("unrelated", sym.show(t))


def site_guards(body, prov, bb, is_counter):
    """guards on the caller's counter whose edge dominates block bb: list of (op, K-term)"""
    out = []
    for tb, fb, op, x, y, sw in guards.branch_conditions(body, prov):
        for blk, o in ((tb, op), (fb, guards.CMP_NEG[op])):
            if blk is None or not body.dominates(blk, bb):
                continue
            x1, y1 = unwrap_casts(x), unwrap_casts(y)
            if is_counter(x1) and y1[0] in ("c", "uneval"):
                out.append((o, y1))
            elif is_counter(y1) and x1[0] in ("c", "uneval"):
                out.append((guards.CMP_FLIP[o], x1))
    # bool latch: switch directly on the counter
    for bi, blk in enumerate(body.blocks):
        t = blk["t"]
        if t["k"] != "switch" or t.get("dty") != "bool" or not body.reachable(bi):
            continue
        term = prov.op(t["discr"])
        neg = False
        while term[0] == "un" and term[1] == "Not":
            neg = not neg
            term = term[2]
        if not is_counter(unwrap_casts(term)):
            continue
        false_b = [tg for v, tg in t["arms"] if v == 0]
        true_b = t["otherwise"]
        if not false_b:
            continue
        fbk, tbk = false_b[0], true_b
        if neg:
            fbk, tbk = tbk, fbk
        if body.preds(fbk) == [bi] and body.dominates(fbk, bb):
            out.append(("IsFalse", None))
        if body.preds(tbk) == [bi] and body.dominates(tbk, bb):
            out.append(("IsTrue", None))
    return out


def check_assignment(fx, fam, assign, prov):
    problems = []
    detail = []
    steps_seen = []
    for s in fam.sccs:
        sset = set(s)
        edges = []
        for u in s:
            for v, bb, kind in fx.adj()[u]:
                if v in sset:
                    edges.append((u, v, bb, kind))
        strict = []
        guarded = []
        for (u, v, bb, kind) in edges:
            nu, nv = fx.nodes[u], fx.nodes[v]
            bu = fx.by_dp.get(nu["dp"]) if nu["local"] else None
            bv = fx.by_dp.get(nv["dp"]) if nv["local"] else None
            if bu is None:
                continue  # std frame in the cycle: transparent
            is_cnt = counter_matcher(fx, bu, assign)
            site = bu.loc(bu.term(bb))
            # guard at the site (on the caller's counter)
            g = site_guards(bu, prov(bu), bb, is_cnt) if is_cnt else []
            pv = assign.get(nv["dp"]) if bv is not None else None
            rel = None
            if bv is not None and pv is not None and kind == "call":
                t = bu.term(bb)
                if pv < len(t["args"]):
                    rel = relation(prov(bu).op(t["args"][pv]), is_cnt)
            edge_name = "%s->%s" % (bu.root, nv["path"])
            detail.append({"edge": edge_name, "site": site, "passes": rel, "guards": [(o, sym.show(k) if k else None) for o, k in g]})
            if rel is not None:
                if rel[0] == "step":
                    steps_seen.append(rel[1])
                    if rel[1] != 0:
                        strict.append((u, v, bb))
                elif rel[0] == "const":
                    if bv.local_ty(pv + 1) == "bool" and rel[1] == 1:
                        strict.append((u, v, bb))  # latch
                        steps_seen.append("latch")
                    else:
                        problems.append(("reset:" + edge_name, "recursive call passes the constant %s in the counter position: the bound is reset on this edge" % (rel[1],), site))
                else:
                    problems.append(("unrelated:" + edge_name, "recursive call passes %s in the counter position, unrelated to the caller's counter" % rel[1], site))
            if g:
                guarded.append((u, v, bb, g))
        ints = [x for x in steps_seen if x != "latch"]
        inc = any(x > 0 for x in ints)
        dec = any(x < 0 for x in ints)
        latch = "latch" in steps_seen
        if inc and dec:
            problems.append(("non-monotone", "counter steps have both signs %s" % sorted(set(ints)), ""))
        unit = all(abs(x) <= 1 for x in ints)
        # keep only guards of the right polarity
        good_guard_edges = set()
        for (u, v, bb, g) in guarded:
            for o, k in g:
                kv = k[1] if (k and k[0] == "c") else None
                if latch and o == "IsFalse":
                    good_guard_edges.add((u, v, bb))
                elif inc and not dec and (o in ("Lt", "Le") or (o == "Ne" and unit)):
                    good_guard_edges.add((u, v, bb))
                elif dec and not inc and (o in ("Gt",) or (o == "Ge" and (kv is None or kv >= 1)) or (o == "Ne" and unit and kv == 0)):
                    if o == "Gt" and kv is not None and kv < 0:
                        continue
                    good_guard_edges.add((u, v, bb))
        all_e = [(u, v) for (u, v, bb, kind) in edges]
        rem_strict = [(u, v) for (u, v, bb, kind) in edges if (u, v, bb) not in set(strict)]
        rem_guard = [(u, v) for (u, v, bb, kind) in edges if (u, v, bb) not in good_guard_edges]
        if not acyclic(s, rem_strict):
            bad = sorted({"%s->%s" % (fx.nodes[u]["path"], fx.nodes[v]["path"]) for (u, v) in cyc_edges(s, rem_strict)})
            problems.append(("no-strict-step:" + "|".join(bad), "a cycle exists on which the counter never moves: %s" % bad, ""))
        if not acyclic(s, rem_guard):
            ce = cyc_edges(s, rem_guard)
            cnt = defaultdict(int)
            sites = defaultdict(list)
            for (u, v, bb, kind) in edges:
                if (u, v) in ce and (u, v, bb) not in good_guard_edges:
                    nu, nv = fx.nodes[u], fx.nodes[v]
                    bu = fx.by_dp.get(nu["dp"]) if nu["local"] else None
                    nm = "%s->%s" % (bu.root if bu else nu["path"], nv["path"])
                    cnt[nm] += 1
                    if bu:
                        sites[nm].append(bu.loc(bu.term(bb)))
            for nm, c in sorted(cnt.items()):
                problems.append(("unguarded:%s#%d" % (nm, c), "%d recursive call site(s) on a cycle are not dominated by a bound test on the counter" % c, ", ".join(sites[nm])))
        # only the first instantiation needs detailed reporting; identical bodies
        if problems:
            break
    # dedupe problems
    seen = set()
    out = []
    for p in problems:
        if p[0] not in seen:
            seen.add(p[0])
            out.append(p)
    return {"problems": out, "detail": detail[:40], "steps": sorted(set(map(str, steps_seen)))}


def cyc_edges(nodes, edges):
    """edges that lie on some cycle of the graph (both ends in the same non-trivial SCC)"""
    adj = defaultdict(list)
    for u, v in edges:
        adj[u].append(v)
    # simple Tarjan (recursive is fine: tiny graphs)
    index = {}
    low = {}
    st = []
    on = set()
    comp = {}
    counter = [0]

    def sc(v):
        index[v] = low[v] = counter[0]
        counter[0] += 1
        st.append(v)
        on.add(v)
        for w in adj[v]:
            if w not in index:
                sc(w)
                low[v] = min(low[v], low[w])
            elif w in on:
                low[v] = min(low[v], index[w])
        if low[v] == index[v]:
            members = []
            while True:
                w = st.pop()
                on.discard(w)
                members.append(w)
                if w == v:
                    break
            for m in members:
                comp[m] = (v, len(members))
    for n in nodes:
        if n not in index:
            sc(n)
    out = set()
    for u, v in edges:
        if comp[u][0] == comp[v][0] and (comp[u][1] > 1 or u == v):
            out.add((u, v))
    return out


def entry_calls(fx, fam, assign_paths):
    """calls from outside the SCC into counter-carrying functions: (caller path, callee path, relation, site)"""
    out = []
    sset = set(i for s in fam.sccs for i in s)
    by_path = {}
    for s in fam.sccs:
        for i in s:
            n = fx.nodes[i]
            if n["local"] and n["path"] in assign_paths:
                by_path[i] = n["path"]
    seen = set()
    for u, n in enumerate(fx.nodes):
        if u in sset or not n["local"]:
            continue
        bu = fx.by_dp.get(n["dp"])
        if bu is None:
            continue
        for v, bb, kind in fx.adj()[u]:
            if v in by_path and kind == "call":
                bv = fx.by_dp[fx.nodes[v]["dp"]]
                cname = assign_paths[by_path[v]]
                p = None
                for k in range(bv.arg_count):
                    if bv.local_name(k + 1) == cname or k == cname:
                        p = k
                t = bu.term(bb)
                ident = (bu.dp, bb)
                if ident in seen or p is None or p >= len(t["args"]):
                    continue
                seen.add(ident)
                rel = relation(sym.Prov(bu).op(t["args"][p]), None)
                out.append((bu.root, by_path[v], rel, bu.loc(t)))
    return out


def run_rule(run, fx, rule, select, floors_n=None, ledger="recursion"):
    """apply C01-a to the families selected by `select(family) -> bool`; returns analysed families"""
    run.rule(rule, "every recursive SCC of the per-instance call graph has a counter assignment with monotone threading, "
                   "a strict step on every cycle and a bound test dominating a call site on every cycle; entry calls pass constants")
    fams = [f for f in families(fx) if select(f)]
    for fam in fams:
        res = analyse_family(fx, fam)
        fam.result = res
        names = [p.split("::")[-1] for p in fam.local_paths]
        if res["ok"]:
            entries = entry_calls(fx, fam, res["assignment"])
            bad_entries = [e for e in entries if e[2][0] != "const"]
            needs_const = ("latch" not in res["steps"]) and (any(s.startswith("-") for s in res["steps"]))
            if needs_const and bad_entries:
                for e in bad_entries:
                    run.fail(rule, "entry:%s->%s" % (e[0], e[1]), "entry call passes a non-constant start value (%s) to a decreasing depth counter" % (e[2][1],), e[3], ledger=ledger)
            run.ok(rule, "SCC {%s} x%d instantiation(s): counter %s, steps %s, %d entry call(s) %s" % (
                ", ".join(names), len(fam.sccs), res["assignment"], res["steps"], len(entries),
                sorted({str(e[2][1]) for e in entries})))
        else:
            for key, msg, site in res["problems"]:
                run.fail(rule, "%s [%s]" % (key, "+".join(names)), "recursive SCC {%s}: %s (best counter assignment: %s)" % (
                    ", ".join(fam.local_paths), msg, res.get("assignment")), site, ledger=ledger)
    if floors_n is not None:
        run.floor(rule, "recursive SCC families", len(fams), floors_n)
    return fams
