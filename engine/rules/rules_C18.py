"""C18 — Type 2 charstring semantics: operator tables, subroutine bias, limits, bounded nesting,
dispatch exhaustiveness and visitor agreement."""
import os
import re
import sys

import recursion
import sym
import tableread
from facts import callee_is

sys.path.insert(0, os.path.join(os.path.dirname(os.path.abspath(__file__)), "..", ".."))
from oracle import type2 as O  # noqa: E402

LEVEL = "other"
EXPLANATION = (
    "Decides structural necessary conditions of Type 2 conformance by reading the compiled program: (T18-OPS) every "
    "operator::* constant equals the opcode the Type 2 / CFF2 specification assigns to it (oracle/type2.py); (T18-VOP) the "
    "three tables over VisitOp — TryFrom<u8>, From<VisitOp> for u8 and Display — agree with each other and with the "
    "specification's mnemonic->opcode table, and the two conversions are mutual inverses; (T18-DISP) the interpreter's dispatch "
    "switch has an arm for every operator the specification defines, for the reserved codes, the escape byte (whose inner "
    "switch lists exactly hflex/flex/hflex1/flex1) and the number prefixes, and every arm that converts its opcode with "
    "try_into().unwrap() only handles opcodes in the domain of that conversion; (T18-BIAS) calc_subroutine_bias equals the "
    "specified step function at every breakpoint and conv_subroutine_index adds the bias; (T18-LIM) nesting and stack limits "
    "equal the specification's; (C18-c) every recursive cycle of the interpreter passes a depth guard (rule C01-a); (T18-VIS) "
    "every CharStringVisitor::visit implementation matches VisitOp without a wildcard arm that would silently swallow path operators."
)
NOT_DECIDED = ("path construction arithmetic, width/stem/hintmask accounting, number decoding arithmetic, operand-stack depth "
               "discipline (pop on a possibly empty stack), blend values.")

NAMES = {  # repository constant -> specification mnemonic
    "HORIZONTAL_STEM": "hstem", "VERTICAL_STEM": "vstem", "VERTICAL_MOVE_TO": "vmoveto", "LINE_TO": "rlineto",
    "HORIZONTAL_LINE_TO": "hlineto", "VERTICAL_LINE_TO": "vlineto", "CURVE_TO": "rrcurveto",
    "CALL_LOCAL_SUBROUTINE": "callsubr", "RETURN": "return", "ENDCHAR": "endchar", "VS_INDEX": "vsindex", "BLEND": "blend",
    "HORIZONTAL_STEM_HINT_MASK": "hstemhm", "HINT_MASK": "hintmask", "COUNTER_MASK": "cntrmask", "MOVE_TO": "rmoveto",
    "HORIZONTAL_MOVE_TO": "hmoveto", "VERTICAL_STEM_HINT_MASK": "vstemhm", "CURVE_LINE": "rcurveline",
    "LINE_CURVE": "rlinecurve", "VV_CURVE_TO": "vvcurveto", "HH_CURVE_TO": "hhcurveto",
    "CALL_GLOBAL_SUBROUTINE": "callgsubr", "VH_CURVE_TO": "vhcurveto", "HV_CURVE_TO": "hvcurveto",
    "HFLEX": "hflex", "FLEX": "flex", "HFLEX1": "hflex1", "FLEX1": "flex1",
}


def t18_ops(run, fx, floors):
    run.rule("T18-OPS", "cff::charstring::operator::* constants equal the Type 2 / CFF2 opcodes")
    spec = dict(O.ONE_BYTE)
    spec.update(O.TWO_BYTE)
    n = 0
    for c in fx.tables["consts"]:
        m = re.match(r"^cff::charstring::operator::(\w+)$", c["path"])
        if not m:
            continue
        name = m.group(1)
        n += 1
        site = "%s:%s" % (c["file"], c["line"])
        if name == "SHORT_INT":
            want = O.SHORT_INT
        elif name == "FIXED_16_16":
            want = O.FIXED_16_16
        elif name in NAMES:
            want = spec[NAMES[name]]
        else:
            run.fail("T18-OPS", "operator:" + name, "operator constant with no counterpart in the specification table of this checker", site)
            continue
        if c.get("val") != want:
            run.fail("T18-OPS", "operator:" + name, "operator::%s = %s, the specification says %s" % (name, c.get("val"), want), site)
        else:
            run.ok("T18-OPS", "operator::%s = %d" % (name, want) if n <= 3 else None)
    esc = fx.const("cff::charstring::TWO_BYTE_OPERATOR_MARK")
    if esc is None or esc.get("val") != O.ESCAPE:
        run.fail("T18-OPS", "operator:TWO_BYTE_OPERATOR_MARK", "escape byte is %s, the specification says 12" % (esc and esc.get("val")), "")
    else:
        run.ok("T18-OPS", "TWO_BYTE_OPERATOR_MARK = 12")
    if floors:
        run.floor("T18-OPS", "operator constants", n, 31)


def visitop_tables(fx):
    adt = fx.adt("cff::charstring::VisitOp")
    tf = fx.body("<cff::charstring::VisitOp as std::convert::TryFrom<u8>>::try_from")
    fr = fx.body("cff::charstring::<impl std::convert::From<cff::charstring::VisitOp> for u8>::from")
    ds = fx.body("<cff::charstring::VisitOp as std::fmt::Display>::fmt")
    if not (adt and tf and fr and ds):
        return None
    variants = {v["discr"]: v["name"] for v in adt["variants"]}
    byname = {v["name"]: v["discr"] for v in adt["variants"]}
    # TryFrom: u8 -> variant
    _, arms, other, _ = tableread.match_table(tf)
    try_from = {}
    for val, res in arms.items():
        r = sym.strip(res) if res else None
        # Ok { 0: VisitOp::X }
        if r and r[0] == "agg" and r[2] == "Ok":
            inner = sym.strip(r[3][0])
            if inner[0] == "agg" and inner[1].endswith("VisitOp"):
                try_from[val] = inner[2]
                continue
        try_from[val] = None
    # From: variant -> u8
    _, arms2, _, _ = tableread.match_table(fr)
    to_u8 = {}
    for d, res in arms2.items():
        r = sym.strip(res) if res else None
        val = None
        if r and r[0] == "c":
            val = r[1]
        elif r and r[0] == "uneval":
            c = fx.const(r[1])
            val = c.get("val") if c else None
        to_u8[variants.get(d, d)] = val
    # Display: variant -> mnemonic
    _, arms3, _, _ = tableread.match_table(ds)
    disp = {}
    for d, res in arms3.items():
        name = None
        if res and res[0] == "call" and res[1].endswith("write_str"):
            lit = sym.strip(res[2][1])
            while lit[0] in ("ref", "deref"):
                lit = sym.strip(lit[1])
            if lit[0] == "c" and isinstance(lit[3], str):
                name = lit[3].strip('"')
        disp[variants.get(d, d)] = name
    return variants, try_from, to_u8, disp, (tf, fr, ds)


def t18_vop(run, fx, floors):
    run.rule("T18-VOP", "TryFrom<u8> for VisitOp, From<VisitOp> for u8 and Display for VisitOp agree with each other and with the specification; the conversions are mutual inverses")
    t = visitop_tables(fx)
    if t is None:
        run.anchor_missing("T18-VOP", "VisitOp and its TryFrom/From/Display impls")
        return None
    variants, try_from, to_u8, disp, (tf, fr, ds) = t
    spec = dict(O.ONE_BYTE)
    spec.update(O.TWO_BYTE)
    for d, name in sorted(variants.items()):
        code = to_u8.get(name)
        mn = disp.get(name)
        site = "%s:%s" % (fr.file, fr.line)
        if code is None or mn is None:
            run.fail("T18-VOP", "visitop:%s" % name, "variant has no entry in From<VisitOp> (%s) or Display (%s)" % (code, mn), site)
            continue
        if spec.get(mn) != code:
            run.fail("T18-VOP", "visitop:%s" % name, "VisitOp::%s displays as %r and converts to opcode %s; the specification assigns %r the opcode %s" % (name, mn, code, mn, spec.get(mn)), site)
            continue
        if try_from.get(code) != name:
            run.fail("T18-VOP", "visitop:%s" % name, "u8::from(VisitOp::%s) = %d but VisitOp::try_from(%d) = %s" % (name, code, code, try_from.get(code)), "%s:%s" % (tf.file, tf.line))
            continue
        run.ok("T18-VOP", "%s <-> %d (%s)" % (name, code, mn) if d < 3 else None)
    for b, name in sorted(try_from.items()):
        if name is None or to_u8.get(name) != b:
            run.fail("T18-VOP", "try_from:%d" % b, "VisitOp::try_from(%d) = %s but u8::from(%s) = %s" % (b, name, name, to_u8.get(name)), "%s:%s" % (tf.file, tf.line))
        else:
            run.ok("T18-VOP")
    if floors:
        run.floor("T18-VOP", "VisitOp variants", len(variants), 27)
    return set(b for b, n in try_from.items() if n is not None)


def t18_disp(run, fx, domain, floors):
    run.rule("T18-DISP", "the interpreter's dispatch switch has an arm for every specified operator, the reserved codes, escape and number "
                         "prefixes; the escape switch lists exactly the four flex operators; arms that call try_into().unwrap() only handle opcodes in the conversion's domain")
    b = fx.body("cff::charstring::CharStringVisitorContext::<'a, 'data>::visit_impl")
    if b is None:
        run.anchor_missing("T18-DISP", "visit_impl")
        return
    site = "%s:%s" % (b.file, b.line)
    main = None
    inner = None
    for bi in b.rpo():
        t = b.term(bi)
        if t["k"] == "switch" and t.get("dty") == "u8" and len(t["arms"]) >= 20 and main is None:
            main = (bi, t)
        elif t["k"] == "switch" and t.get("dty") == "u8" and main is not None and inner is None and b.dominates(main[0], bi):
            vals = {v for v, _ in t["arms"]}
            if vals & set(O.TWO_BYTE.values()):
                inner = (bi, t)
    if main is None:
        run.fail("T18-DISP", "dispatch:missing", "no opcode dispatch switch found in visit_impl", site)
        return
    arms = {v: tg for v, tg in main[1]["arms"]}
    want = set(O.ONE_BYTE.values()) | O.RESERVED | {O.ESCAPE, O.SHORT_INT, O.FIXED_16_16}
    missing = sorted(want - set(arms))
    extra = sorted(set(arms) - want)
    if missing:
        for m in missing:
            run.fail("T18-DISP", "dispatch:missing:%d" % m, "opcode %d has no arm in the dispatch (it would be decoded as a number or rejected by the catch-all)" % m, site)
    if extra:
        for m in extra:
            run.fail("T18-DISP", "dispatch:extra:%d" % m, "dispatch has an arm for %d which the specification does not define as an operator" % m, site)
    if not missing and not extra:
        run.ok("T18-DISP", "dispatch arms = %d specified operators + reserved %s + escape + 28 + 255" % (len(O.ONE_BYTE), sorted(O.RESERVED)))
    # reserved codes share one target that returns an error, distinct from every operator's target
    rtg = {arms[r] for r in O.RESERVED if r in arms}
    optg = {arms[v] for v in O.ONE_BYTE.values() if v in arms}
    if len(rtg) == 1 and not (rtg & optg):
        run.ok("T18-DISP", "reserved codes %s share one rejecting arm" % sorted(O.RESERVED))
    else:
        run.fail("T18-DISP", "dispatch:reserved", "reserved opcodes do not share a single arm separate from the operators", site)
    if inner is None:
        run.fail("T18-DISP", "dispatch:escape", "no inner switch on the second byte of an escaped operator", site)
    else:
        vals = {v for v, _ in inner[1]["arms"]}
        if vals == set(O.TWO_BYTE.values()) and b.dominates(arms.get(O.ESCAPE, -1), inner[0]):
            run.ok("T18-DISP", "escape (12) arm dispatches exactly {34,35,36,37}")
        else:
            run.fail("T18-DISP", "dispatch:escape", "escaped operators handled are %s, expected {34,35,36,37} under the arm of opcode 12" % sorted(vals), site)
    # unwrap of try_into in an arm: the arm's opcodes must be in the domain of TryFrom
    if domain is not None:
        by_target = {}
        for v, tg in arms.items():
            by_target.setdefault(tg, []).append(v)
        n_unwrap = 0
        sites = []  # (block of visit_impl that owns the site, location)
        for bi, t in b.calls():
            if callee_is(t, "::unwrap") and len(t["args"]) == 1:
                src = sym.strip(sym.Prov(b).op(t["args"][0]))
                if src[0] == "call" and (src[4] or "").endswith("TryInto::try_into"):
                    sites.append((bi, t, b))
        # closures built inside an arm (stack.offset(.., |stack| visitor.visit(op.try_into().unwrap(), ..)))
        for cb in fx.closures_of(b.dp):
            has = False
            for ci, ct in cb.calls():
                if callee_is(ct, "::unwrap") and len(ct["args"]) == 1:
                    src = sym.strip(sym.Prov(cb).op(ct["args"][0]))
                    if src[0] == "call" and (src[4] or "").endswith("TryInto::try_into"):
                        has = ct
            if has:
                for bi, blk in enumerate(b.blocks):
                    for st in blk["s"]:
                        if st["k"] == "assign" and st["rv"]["k"] == "agg" and st["rv"].get("closure_dp") == cb.dp and b.reachable(bi):
                            sites.append((bi, has, cb))
        for bi, t, owner_body in sites:
            if True:
                if True:
                    n_unwrap += 1
                    owners = [tg for tg in by_target if b.dominates(tg, bi) and b.preds(tg) == [main[0]]]
                    in_inner = inner is not None and b.dominates(inner[0], bi)
                    if in_inner:
                        codes = [v for v, tg in inner[1]["arms"] if b.dominates(tg, bi)]
                    elif owners:
                        codes = by_target[max(owners, key=lambda x: len(b.reach_from(x)) * -1)]
                    else:
                        codes = None
                    if codes is None:
                        run.fail("T18-DISP", "unwrap:unowned", "try_into().unwrap() not under a single dispatch arm", owner_body.loc(t))
                    else:
                        bad = [c for c in codes if c not in domain]
                        if bad:
                            run.fail("T18-DISP", "unwrap:%s" % ",".join(map(str, sorted(bad))), "arm for opcode(s) %s calls try_into().unwrap() but VisitOp::try_from rejects them: panic on font data" % bad, owner_body.loc(t))
                        else:
                            run.ok("T18-DISP", "unwrap of try_into under arm %s: all in the domain of VisitOp::try_from" % sorted(codes))
        if floors:
            run.floor("T18-DISP", "try_into().unwrap() sites in visit_impl", n_unwrap, 12)


def t18_bias(run, fx, floors):
    run.rule("T18-BIAS", "calc_subroutine_bias(n) = 107 / 1131 / 32768 with thresholds 1240 / 33900; conv_subroutine_index adds the bias")
    b = fx.body("cff::charstring::calc_subroutine_bias")
    if b is None:
        run.anchor_missing("T18-BIAS", "calc_subroutine_bias")
        return
    site = "%s:%s" % (b.file, b.line)
    try:
        f, bps = tableread.scalar_fn(b)
    except tableread.TableShape as e:
        run.fail("T18-BIAS", "ANCHOR-SHAPE:calc_subroutine_bias", "not of the recognised table shape: %s" % e, site)
        return
    pts = set(O.BIAS_POINTS)
    for k in bps:
        pts.update((k - 1, k, k + 1))
    for n in sorted(p for p in pts if p >= 0):
        r = f(n)
        if r != ("some", O.bias(n)):
            run.fail("T18-BIAS", "bias:%d" % n, "calc_subroutine_bias(%d) = %s, the specification says %d" % (n, r[1] if len(r) > 1 else None, O.bias(n)), site)
        else:
            run.ok("T18-BIAS", "bias(%d) = %d" % (n, O.bias(n)) if n in (1239, 1240, 33900) else None)
    c = fx.body("cff::charstring::conv_subroutine_index_impl")
    if c is None:
        run.anchor_missing("T18-BIAS", "conv_subroutine_index_impl")
    else:
        prov = sym.Prov(c)
        ok = False
        for bi, t in c.calls():
            if callee_is(t, "::checked_add"):
                a0, a1 = sym.strip(prov.op(t["args"][0])), sym.strip(prov.op(t["args"][1]))
                s0, s1 = sym.show(a0), sym.show(a1)
                if ("index" in s0 and "bias" in s1) or ("bias" in s0 and "index" in s1):
                    ok = True
        if ok:
            run.ok("T18-BIAS", "conv_subroutine_index_impl: index.checked_add(bias)")
        else:
            run.fail("T18-BIAS", "conv_subroutine_index", "unbiased index is not index.checked_add(bias)", "%s:%s" % (c.file, c.line))
    # every use of a subroutine operand goes through conv_subroutine_index with calc_subroutine_bias(len of the same index)
    n = 0
    for body in fx.bodies:
        for bi, t in body.calls():
            if callee_is(t, "cff::charstring::conv_subroutine_index") and not callee_is(t, "conv_subroutine_index_impl"):
                n += 1
                bt = sym.strip(sym.Prov(body).op(t["args"][1]))
                if bt[0] == "call" and bt[1].endswith("calc_subroutine_bias"):
                    run.ok("T18-BIAS", "%s: bias operand is calc_subroutine_bias(..)" % body.root)
                else:
                    run.fail("T18-BIAS", "bias-origin:" + body.root, "bias passed to conv_subroutine_index is %s, not calc_subroutine_bias(len)" % sym.show(bt), body.loc(t))
    if floors:
        run.floor("T18-BIAS", "conv_subroutine_index call sites", n, 2)


def t18_lim(run, fx, floors):
    run.rule("T18-LIM", "nesting limit 10, operand stack 48 (CFF) and 513 (CFF2)")
    for path, want in (("cff::charstring::STACK_LIMIT", O.NESTING_LIMIT), ("cff::MAX_OPERANDS", O.STACK_CFF), ("cff::cff2::MAX_OPERANDS", O.STACK_CFF2)):
        c = fx.const(path)
        if c is None:
            run.anchor_missing("T18-LIM", path)
        elif c.get("val") != want:
            run.fail("T18-LIM", "limit:" + path, "%s = %s, the specification says %d" % (path, c.get("val"), want), "%s:%s" % (c["file"], c["line"]))
        else:
            run.ok("T18-LIM", "%s = %d" % (path, want))


def t18_vis(run, fx, floors):
    run.rule("T18-VIS", "every CharStringVisitor::visit implementation dispatches on VisitOp without a catch-all arm that swallows operators "
                        "(a match on the op with an `otherwise` target that is not unreachable must be audited)")
    n = 0
    for b in fx.bodies:
        if b.name != "visit" or "CharStringVisitor" not in b.j.get("impl_trait", ""):
            continue
        n += 1
        sw = None
        for bi in b.rpo():
            t = b.term(bi)
            if t["k"] == "switch" and t.get("dty") == "isize":
                d = sym.strip(sym.Prov(b).op(t["discr"]))
                base = d[1] if d[0] == "discr" else None
                while base is not None and base[0] in ("deref", "ref"):
                    base = base[1]
                if base is not None and base[0] == "arg" and "VisitOp" in b.local_ty(base[1]):
                    sw = t
                    break
        key = "visitor:" + b.j.get("impl_self", b.path)
        if sw is None:
            # visitor ignores the operator entirely (e.g. debug/collector visitors): audited table
            run.fail("T18-VIS", key, "visit() does not dispatch on the VisitOp", "%s:%s" % (b.file, b.line), ledger="visitors")
            continue
        oth = b.term(sw["otherwise"])
        listed = {v for v, _ in sw["arms"]}
        if oth["k"] == "unreachable" or len(listed) >= 27:
            run.ok("T18-VIS", "%s: match over all %d VisitOp variants, no catch-all" % (b.j.get("impl_self"), len(listed)))
        else:
            run.fail("T18-VIS", key, "visit() handles %d of 27 VisitOp variants explicitly and sends the rest to a catch-all arm" % len(listed), "%s:%s" % (b.file, b.line), ledger="visitors")
    if floors:
        run.floor("T18-VIS", "CharStringVisitor::visit impls", n, 4)


def t18_vsi(run, fx):
    rule = "T18-VSI"
    run.rule(rule, "blend: the ItemVariationData index handed to cff2::scalars is the charstring's vsindex operand if one was seen, else the "
                   "Private DICT's vsindex (CFF2 specification: the DICT value is the default), never a constant")
    bs = [b for b in fx.bodies if b.path.endswith("CharStringVisitorContext::<'a, 'data>::visit_impl") and b.kind != "Closure"]
    if len(bs) != 1:
        return run.anchor_missing(rule, "visit_impl")
    b = bs[0]
    fam = fx.family(b)
    sites = [(fb, bi, t) for fb in fam for bi, t in fb.calls() if callee_is(t, "cff::cff2::scalars")]
    if not sites:
        return run.anchor_missing(rule, "call to cff2::scalars in visit_impl")
    for fb, bi, t in sites:
        prov = sym.Prov(fb)
        v = prov.op(t["args"][0])
        uses_field = any(x[0] == "field" and x[2] == "vsindex" for x in sym.walk(v))
        # the fallback closure consults the Private DICT
        dict_default = False
        for x in sym.walk(v):
            if x[0] == "call" and (x[4] or x[1] or "").endswith(("unwrap_or_else", "or_else", "map_or_else")):
                for a in x[2]:
                    for y in sym.walk(a):
                        if y[0] == "agg" and y[1] == "closure":
                            pass
        for cb in fam:
            if cb.kind == "Closure" and any(callee_is(t2, "Dict::<T>::get_i32") for _, t2 in cb.calls()):
                cprov = sym.Prov(cb)
                for _, t2 in cb.calls():
                    if callee_is(t2, "Dict::<T>::get_i32"):
                        recv = sym.show(sym.strip(cprov.op(t2["args"][0])))
                        op = sym.strip(cprov.op(t2["args"][1]))
                        if "private_dict" in recv and (op[0] == "agg" and op[2] == "VSIndex" or "VSIndex" in sym.show(op)):
                            dict_default = True
        if uses_field and dict_default:
            run.ok(rule, "scalars(vsindex or Private DICT vsindex, ..)")
        else:
            run.fail(rule, "blend:vsindex-default", "the variation data index for blend does not fall back to the Private DICT vsindex (charstring vsindex used: %s, DICT default: %s)" % (uses_field, dict_default), fb.loc(t))


def _ok_return(hb, rb):
    """the return block is reached with an Ok result (not through from_residual / an Err literal)"""
    seen, st = set(), [rb]
    # conservative: a return block counts as a success return unless every path into it passes an error construction
    for p in hb.preds(rb):
        t = hb.term(p)
        if t["k"] == "call" and (t["callee"].get("path") or "").endswith("from_residual"):
            continue
        return True
    return not hb.preds(rb)


def guards_success(b, t):
    import guards
    if t["dest"]["p"]:
        return []
    return guards.success_blocks(b, t["dest"]["l"])


def t18_mask(run, fx):
    rule = "T18-MASK"
    run.rule(rule, "hint mask length: the bytes read after hintmask/cntrmask are ceil(stems_len / 8), and on every path to that read the stem count has "
                   "just been increased by half the operands left on the stack (an omitted vstem before the first mask) - a store "
                   "`self.stems_len = checked_add(self.stems_len, len >> 1)` dominates the read; every other update of stems_len has the same form")
    bs = [b for b in fx.bodies if b.path.endswith("CharStringVisitorContext::<'a, 'data>::visit_impl") and b.kind != "Closure"]
    if len(bs) != 1:
        return run.anchor_missing(rule, "visit_impl")
    b = bs[0]
    prov = sym.Prov(b)
    reads = []
    for bi, t in b.calls():
        if callee_is(t, "read_slice") and len(t["args"]) == 2:
            v = prov.op(t["args"][1])
            dc = [x for x in sym.walk(v) if x[0] == "call" and (x[1] or "").endswith("::div_ceil")]
            if dc and any(y[0] == "field" and y[2] == "stems_len" for y in sym.walk(dc[0])):
                d = sym.strip(dc[0][2][1])
                reads.append((bi, t, d[1] if d[0] == "c" else None))
    def stem_stores(fb):
        out_ = []
        pv = sym.Prov(fb)
        for bi_ in range(len(fb.blocks)):
            if not fb.reachable(bi_):
                continue
            for st in fb.stmts(bi_):
                pl = st.get("p") or {}
                if st.get("k") == "assign" and any(isinstance(e, dict) and e.get("n") == "stems_len" for e in pl.get("p", [])):
                    v = pv.op(st["rv"]["op"]) if st["rv"].get("k") == "use" else None
                    good = False
                    if v is not None:
                        for x in sym.walk(v):
                            if x[0] == "call" and (x[1] or "").endswith("::checked_add") and len(x[2]) == 2:
                                a0, a1 = sym.strip(x[2][0]), sym.strip(x[2][1])
                                half = a1[0] == "bin" and ((a1[1] == "Shr" and sym.strip(a1[3])[0] == "c" and sym.strip(a1[3])[1] == 1)
                                                            or (a1[1] == "Div" and sym.strip(a1[3])[0] == "c" and sym.strip(a1[3])[1] == 2))
                                if half and any(y[0] == "field" and y[2] == "stems_len" for y in sym.walk(a0)):
                                    good = True
                    out_.append((bi_, st, good))
        return out_
    stores = stem_stores(b)
    # a private helper of the interpreter that does the counting (`self.count_stems(stack.len())?`): the call stands for its store when every
    # store of the helper has the right form and lies on all of its success paths
    for bi, t in b.calls():
        cp = t["callee"].get("path") or ""
        hb = fx.body(cp) if cp.startswith("cff::charstring::") and cp != b.path else None
        if hb is None or hb.kind == "Closure":
            continue
        hs = stem_stores(hb)
        if hs:
            okb = [bj for bj in range(len(hb.blocks)) if hb.reachable(bj) and any(
                st_["k"] == "assign" and st_["p"]["l"] == 0 and not st_["p"]["p"] and st_["rv"]["k"] == "agg" and st_["rv"].get("vname") == "Ok" for st_ in hb.stmts(bj))]
            good = bool(okb) and all(g for _, _, g in hs) and any(all(hb.dominates(sb, ob) for ob in okb) for sb, _, _ in hs)
            for sb in guards_success(b, t) or [t.get("target")]:
                if sb is not None:
                    stores.append((sb, t, good))
    if not reads or len(stores) < 2:
        return run.anchor_missing(rule, "mask bytes read (read_slice of stems_len.div_ceil(8)) and the two stems_len updates in visit_impl")
    for bi, st, good in stores:
        if good:
            run.ok(rule, "stems_len update at %s adds half the operand count" % b.loc(st))
        else:
            run.fail(rule, "mask:update", "visit_impl updates stems_len with something other than checked_add(stems_len, len >> 1)", b.loc(st))
    for bi, t, div in reads:
        if div != 8:
            run.fail(rule, "mask:bytes", "the hint mask length is not ceil(stems_len / 8)", b.loc(t))
            continue
        dom = [s for s in stores if s[2] and b.dominates(s[0], bi)]
        if dom:
            run.ok(rule, "mask bytes = ceil(stems_len / 8) after counting the stems still on the stack")
        else:
            run.fail(rule, "mask:implicit-stems", "some path reaches the read of the hint mask bytes without adding the operands left on the stack to stems_len "
                     "(hintmask and cntrmask both take an implied vstem): the mask is read with the wrong length and the rest of the charstring is misparsed", b.loc(t))


def t18_stack(run, fx, floors=True):
    rule = "T18-STACK"
    run.rule(rule, "the operand stack never claims more room than it has: at every construction of an ArgumentsStack over a fixed-size array "
                   "`[v; N]` the limit `max_len` is at most N (push tests len against max_len and then indexes the array); a limit whose value is "
                   "chosen at run time must be bounded by N for each of its constant alternatives")
    import overflow
    n = 0
    for b in fx.bodies:
        prov = None
        for bi in range(len(b.blocks)):
            if not b.reachable(bi):
                continue
            for st in b.stmts(bi):
                rv = st.get("rv") or {}
                if not (st.get("k") == "assign" and rv.get("k") == "agg" and (rv.get("adt") or "").endswith("argstack::ArgumentsStack")):
                    continue
                prov = prov or sym.Prov(b)
                f = dict(zip(rv["fnames"], rv["fields"]))
                if "data" not in f or "max_len" not in f:
                    continue
                d = sym.strip(prov.op(f["data"]))
                size = None
                for x in sym.walk(d):
                    if x[0] == "repeat":
                        try:
                            size = int(x[2])
                        except (TypeError, ValueError):
                            size = None
                if size is None:
                    continue          # a window of another stack (offset/clone_into): its limit is derived from the parent's
                n += 1
                iv = overflow.Intervals(fx, b, prov)
                ubs = []
                for _db, v in sym.alternatives(b, prov, prov.op(f["max_len"])):
                    r = iv.term(sym.strip(v))
                    ubs.append(r[1] if r else None)
                known = [u for u in ubs if u is not None and u < (1 << 62)]
                if any(u > size for u in known):
                    run.fail(rule, "stack:%s" % b.root, "%s builds an operand stack over an array of %d values with max_len %d: pushing operand %d indexes past the array" % (
                        b.path, size, max(known), size + 1), b.loc(st))
                elif known and len(known) == len(ubs):
                    run.ok(rule, "%s: max_len %d <= array of %d" % (b.path, max(known), size))
                else:
                    run.ok(rule, "%s: array of %d, max_len chosen at run time (bounded by the callers' constants, not decided here)" % (b.path, size))
    if floors:
        # 5 on the prince configuration; without `outline` the glyph-outline interpreters are not compiled (4)
        run.floor(rule, "ArgumentsStack constructions over fixed arrays", n, 5)


# ---- T18-PATH: per-operator path construction ---------------------------------------------------------------------------------
# Linear forms over the current point (X, Y) on entry to the segment walked and the operands a[k]: {atom: coefficient}.

def _lf(*pairs):
    d = {}
    for a, c in pairs:
        d[a] = d.get(a, 0) + c
    return {a: c for a, c in d.items() if c}


def _add(f, *atoms):
    d = dict(f)
    for a in atoms:
        d[a] = d.get(a, 0) + 1
    return {a: c for a, c in d.items() if c}


X0, Y0 = _lf(("X", 1)), _lf(("Y", 1))


def _A(k):
    return ("a", k)


def _curve(X, Y, a, k):
    """rrcurveto group starting at operand k: the three points and the new current point"""
    c1 = (_add(X, _A(k)), _add(Y, _A(k + 1)))
    c2 = (_add(c1[0], _A(k + 2)), _add(c1[1], _A(k + 3)))
    p = (_add(c2[0], _A(k + 4)), _add(c2[1], _A(k + 5)))
    return ("curve_to", c1 + c2 + p), p


def _hcurve(X, Y, k, extra):
    """dxa dxb dyb dyc [dxf]: starts horizontal, ends vertical"""
    c1 = (_add(X, _A(k)), Y)
    c2 = (_add(c1[0], _A(k + 1)), _add(c1[1], _A(k + 2)))
    p = (_add(c2[0], _A(k + 4)) if extra else c2[0], _add(c2[1], _A(k + 3)))
    return ("curve_to", c1 + c2 + p), p


def _vcurve(X, Y, k, extra):
    """dya dxb dyb dxc [dyf]: starts vertical, ends horizontal"""
    c1 = (X, _add(Y, _A(k)))
    c2 = (_add(c1[0], _A(k + 1)), _add(c1[1], _A(k + 2)))
    p = (_add(c2[0], _A(k + 3)), _add(c2[1], _A(k + 4)) if extra else c2[1])
    return ("curve_to", c1 + c2 + p), p


def _line(X, Y, dx=None, dy=None):
    p = (_add(X, _A(dx)) if dx is not None else X, _add(Y, _A(dy)) if dy is not None else Y)
    return ("line_to", p), p


def _alt_curves(first_h, n):
    """all sequences of n alternating curves, each with or without the optional last operand; -> (calls, point, operands used)"""
    out = [([], (X0, Y0), 0)]
    for j in range(n):
        nxt = []
        for calls, (X, Y), k in out:
            for extra in (False, True):
                f = _hcurve if (j % 2 == 0) == first_h else _vcurve
                c, p = f(X, Y, k, extra)
                nxt.append((calls + [c], p, k + (5 if extra else 4)))
        out = nxt
    return out


def _seq(*steps):
    """steps: functions (X, Y, k) -> (call, point, used); -> one variant"""
    calls, P, k = [], (X0, Y0), 0
    for st in steps:
        c, P, used = st(P[0], P[1], k)
        calls.append(c)
        k += used
    return (calls, P, k)


def _st_line(X, Y, k):
    c, p = _line(X, Y, k, k + 1)
    return c, p, 2


def _st_hline(X, Y, k):
    c, p = _line(X, Y, dx=k)
    return c, p, 1


def _st_vline(X, Y, k):
    c, p = _line(X, Y, dy=k)
    return c, p, 1


def _st_curve(X, Y, k):
    c, p = _curve(X, Y, None, k)
    return c, p, 6


def _st_hh(X, Y, k):
    c, p = _hcurve(X, Y, k, False)
    # hhcurveto: dxa dxb dyb dxc - the curve ends horizontal as well: the last operand moves x
    c1x, c1y, c2x, c2y = c[1][0], c[1][1], c[1][2], c[1][3]
    p = (_add(c2x, _A(k + 3)), c2y)
    return ("curve_to", (c1x, c1y, c2x, c2y) + p), p, 4


def _st_vv(X, Y, k):
    c, p = _vcurve(X, Y, k, False)
    c1x, c1y, c2x, c2y = c[1][0], c[1][1], c[1][2], c[1][3]
    p = (c2x, _add(c2y, _A(k + 3)))
    return ("curve_to", (c1x, c1y, c2x, c2y) + p), p, 4


NONE = ([], (X0, Y0), 0)


def _flex_variants(kind):
    A = _A
    X, Y = X0, Y0
    if kind == "flex":
        c1, p1 = _curve(X, Y, None, 0)
        c2, p2 = _curve(p1[0], p1[1], None, 6)
        return [([c1, c2], p2, 12)]
    if kind == "hflex":
        c1 = (_add(X, A(0)), Y)
        c2 = (_add(c1[0], A(1)), _add(Y, A(2)))
        p3 = (_add(c2[0], A(3)), c2[1])
        c4 = (_add(p3[0], A(4)), c2[1])
        c5 = (_add(c4[0], A(5)), Y)
        p6 = (_add(c5[0], A(6)), Y)
        return [([("curve_to", c1 + c2 + p3), ("curve_to", c4 + c5 + p6)], p6, 7)]
    if kind == "hflex1":
        c1 = (_add(X, A(0)), _add(Y, A(1)))
        c2 = (_add(c1[0], A(2)), _add(c1[1], A(3)))
        p3 = (_add(c2[0], A(4)), c2[1])
        c4 = (_add(p3[0], A(5)), c2[1])
        c5 = (_add(c4[0], A(6)), _add(c4[1], A(7)))
        p6 = (_add(c5[0], A(8)), Y)
        return [([("curve_to", c1 + c2 + p3), ("curve_to", c4 + c5 + p6)], p6, 9)]
    if kind == "flex1":
        c1, p1 = _curve(X, Y, None, 0)
        c4 = (_add(p1[0], A(6)), _add(p1[1], A(7)))
        c5 = (_add(c4[0], A(8)), _add(c4[1], A(9)))
        out = []
        for p6, tag in (((_add(c5[0], A(10)), Y), "dx"), ((X, _add(c5[1], A(10))), "dy")):
            out.append(([c1, ("curve_to", c4 + c5 + p6)], p6, 11, tag))
        return out


def _move_variants(kind):
    if kind == "r":
        p = (_add(X0, _A(0)), _add(Y0, _A(1)))
        n = 2
    elif kind == "h":
        p, n = (_add(X0, _A(0)), Y0), 1
    else:
        p, n = (X0, _add(Y0, _A(0))), 1
    return [([("move_to", p)], p, n)]


# function -> (prefix outcomes, iteration variants, exit variants); straight-line operators have only `whole`
PATH_SPEC = {
    "parse_move_to": dict(whole=_move_variants("r")),
    "parse_horizontal_move_to": dict(whole=_move_variants("h")),
    "parse_vertical_move_to": dict(whole=_move_variants("v")),
    "parse_line_to": dict(prefix=[NONE], iteration=[_seq(_st_line)], exit=[NONE]),
    "parse_horizontal_line_to": dict(prefix=[NONE], iteration=[_seq(_st_hline, _st_vline)], exit=[NONE, _seq(_st_hline)]),
    "parse_vertical_line_to": dict(prefix=[NONE], iteration=[_seq(_st_vline, _st_hline)], exit=[NONE, _seq(_st_vline)]),
    "parse_curve_to": dict(prefix=[NONE], iteration=[_seq(_st_curve)], exit=[NONE]),
    "parse_curve_line": dict(prefix=[NONE], iteration=[_seq(_st_curve)], exit=[_seq(_st_line)]),
    "parse_line_curve": dict(prefix=[NONE], iteration=[_seq(_st_line)], exit=[_seq(_st_curve)]),
    "parse_hh_curve_to": dict(prefix=[NONE, ([], (X0, _add(Y0, _A(0))), 1)], iteration=[_seq(_st_hh)], exit=[NONE]),
    "parse_vv_curve_to": dict(prefix=[NONE, ([], (_add(X0, _A(0)), Y0), 1)], iteration=[_seq(_st_vv)], exit=[NONE]),
    "parse_hv_curve_to": dict(prefix=[NONE], iteration=_alt_curves(True, 2), exit=[NONE] + _alt_curves(True, 1)),
    "parse_vh_curve_to": dict(prefix=[NONE], iteration=_alt_curves(False, 2), exit=[NONE] + _alt_curves(False, 1)),
    "parse_flex": dict(whole=_flex_variants("flex")),
    "parse_hflex": dict(whole=_flex_variants("hflex")),
    "parse_hflex1": dict(whole=_flex_variants("hflex1")),
    "parse_flex1": dict(whole=_flex_variants("flex1")),
}


class _Und(Exception):
    pass


class _Forms:
    """linear forms of the terms of one walked path. Operands: `stack.at(e)` is a[e - i] with i the index variable's value on entry to
    the segment (a[e] when the segment starts at the function entry), `stack.pop()` on the reversed copy is the next operand in path order."""

    def __init__(self, b, calls, ivar, outer):
        self.b, self.ivar, self.outer = b, ivar, outer
        self.pop_ord = {}
        n = 0
        for bb, name, args, path in calls:
            if (path or name or "").endswith("ArgumentsStack::<'a, T>::pop"):
                self.pop_ord[bb] = n
                n += 1
        self.npop = n

    def int_form(self, t):
        t = sym.strip(t)
        k = t[0]
        if k == "c" and isinstance(t[1], int) and not isinstance(t[1], bool):
            return (0, t[1])
        if k == "init":
            if self.ivar is not None and t[1] == self.ivar:
                return (1, 0)
            raise _Und("integer %s" % t[1])
        if k == "bin" and t[1] in ("Add", "Sub", "AddWithOverflow", "SubWithOverflow"):
            a, c = self.int_form(t[2]), self.int_form(t[3])
            sg = 1 if t[1].startswith("Add") else -1
            return (a[0] + sg * c[0], a[1] + sg * c[1])
        raise _Und("index expression")

    def form(self, t):
        t = sym.strip(t)
        k = t[0]
        if k == "init":
            if t[1] == "(*self).x":
                return dict(X0)
            if t[1] == "(*self).y":
                return dict(Y0)
            if self.outer is not None and t[1] in self.outer:
                return self.outer[t[1]]
            raise _Und("value of %s" % t[1])
        if k == "c":
            if re.match(r"^-?0(\.0+)?(e0)?(_?f32)?$", str(t[3]).strip()) or t[1] == 0:
                return {}
            raise _Und("constant %s" % (t[3],))
        if k == "bin" and t[1] in ("Add", "Sub"):
            a, c = self.form(t[2]), self.form(t[3])
            d = dict(a)
            for at, co in c.items():
                d[at] = d.get(at, 0) + (co if t[1] == "Add" else -co)
            return {at: co for at, co in d.items() if co}
        if k == "call":
            p = t[4] or t[1] or ""
            if p.endswith("ArgumentsStack::<'a, T>::at") and len(t[2]) == 2:
                ci, cc = self.int_form(t[2][1])
                if self.ivar is None:
                    if ci != 0:
                        raise _Und("index")
                    return {_A(cc): 1}
                if ci != 1:
                    raise _Und("operand index not relative to the loop index")
                return {_A(cc): 1}
            if p.endswith("ArgumentsStack::<'a, T>::pop") and t[3] in self.pop_ord:
                return {_A(self.pop_ord[t[3]]): 1}
        raise _Und("term %s" % sym.show(t)[:60])


def _loop_of(b, names=("at", "pop")):
    """the loop that consumes the operands: (header, body) of the outermost natural loop containing a call of at / pop"""
    import loops
    best = None
    for h, body, srcs in loops.natural_loops(b):
        if any((t["callee"].get("path") or "").endswith(("ArgumentsStack::<'a, T>::at", "ArgumentsStack::<'a, T>::pop")) for bi, t in b.calls() if bi in body):
            if best is None or len(body) > len(best[1]):
                best = (h, body)
    return best


def _is_ok_return(env):
    r = env.get("_0")
    return r is not None and r[0] == "agg" and r[2] == "Ok"


def _fmt(f):
    if not f:
        return "0"
    out = []
    for a, c in sorted(f.items(), key=lambda kv: (0, kv[0]) if isinstance(kv[0], str) else (1, kv[0][1])):
        nm = a if isinstance(a, str) else "a%d" % a[1]
        out.append(("" if c == 1 else "-" if c == -1 else "%s*" % c) + nm)
    return "+".join(out).replace("+-", "-")


def _outcome(pw, b, path, ivar, outer, drawing):
    """(calls [(name, forms)], (X, Y) forms at the end, operands consumed | None)"""
    conds, env, end, how = path
    calls = env.get(pw.Walk.CALLS, ())
    F = _Forms(b, calls, ivar, outer)
    out = []
    for bb, name, args, cpath in calls:
        short = (cpath or name or "").split("::")[-1]
        if short in drawing and "outline::Builder" in (cpath or name or ""):
            out.append((short, tuple(F.form(a) for a in args[1:])))
    X = F.form(env["(*self).x"]) if "(*self).x" in env else dict(X0)
    Y = F.form(env["(*self).y"]) if "(*self).y" in env else dict(Y0)
    used = None
    if ivar is not None and ivar in env:
        ci, cc = F.int_form(env[ivar])
        if ci != 1:
            raise _Und("loop index")
        used = cc
    elif ivar is not None:
        used = 0
    if F.npop:
        used = F.npop
    return out, (X, Y), used, F


def _match(outcome, variants):
    calls, P, used, F = outcome
    for v in variants:
        vcalls, vP, vused = v[0], v[1], v[2]
        if len(vcalls) != len(calls):
            continue
        if all(c[0] == vc[0] and tuple(c[1]) == tuple(vc[1]) for c, vc in zip(calls, vcalls)) and P == tuple(vP) and (used is None or used == vused):
            return v
    return None


def _show_outcome(o):
    calls, P, used, F = o
    return "%s; current point (%s, %s); %s operand(s)" % (
        ", ".join("%s(%s)" % (n, ", ".join(_fmt(f) for f in fs)) for n, fs in calls) or "no drawing call", _fmt(P[0]), _fmt(P[1]),
        "?" if used is None else used)


def t18_path(run, fx, floors=True):
    import pathwalk as pw
    rule = "T18-PATH"
    run.rule(rule, "per-operator path construction (Type 2 charstring format, path construction operators and flex): for each of the 17 operator "
                   "handlers of CharStringParser the drawing calls and the new current point, as linear forms in the current point and the operands, "
                   "equal the specification's - straight-line handlers as a whole; loop handlers per segment (entry to loop, one iteration, loop "
                   "to return), with operands named relative to the loop index (`at(i + k)`) or in pop order; the operands consumed equal the "
                   "group size; flex1 chooses dx when |dx1+..+dx5| > |dy1+..+dy5|. A handler whose terms are not linear in these is undecided, "
                   "counted against the floor, never reported")
    drawing = ("move_to", "line_to", "curve_to")
    decided = 0
    for fn, spec in sorted(PATH_SPEC.items()):
        bs = [b for b in fx.bodies if b.path.endswith("CharStringParser::<'_, B>::" + fn) and b.kind != "Closure"]
        if len(bs) != 1:
            if floors:
                run.anchor_missing(rule, "CharStringParser::" + fn)
            continue
        b = bs[0]
        key = "path|%s" % fn
        rets = [bi for bi in range(len(b.blocks)) if b.term(bi)["k"] == "return"]
        try:
            problems = []
            if "whole" in spec:
                w = pw.Walk(b, None, [], start=0)
                if w.dropped:
                    raise _Und("; ".join(w.dropped))
                paths = [p for p in w.paths if p[3] == "return" and _is_ok_return(p[1])]
                if not paths:
                    raise _Und("no path to Ok")
                for p in paths:
                    o = _outcome(pw, b, p, None, None, drawing)
                    o = (o[0], o[1], None, o[3])
                    v = _match(o, spec["whole"])
                    if v is None:
                        problems.append("draws %s" % _show_outcome(o))
                    elif len(v) > 3:
                        pr = _flex1_choice(pw, b, p, v[3], o[3])
                        if pr:
                            problems.append(pr)
            else:
                lp = _loop_of(b)
                if lp is None:
                    raise _Und("no loop over the operands")
                h, body = lp
                ivar = _index_var(b, body)
                # entry -> loop
                w0 = pw.Walk(b, None, [h], start=0)
                # one iteration, and loop -> return
                w1 = pw.Walk(b, None, [h], start=h)
                if w0.dropped or w1.dropped:
                    raise _Und("; ".join(w0.dropped + w1.dropped))
                pre = [p for p in w0.paths if p[3] == "stop"]
                its = [p for p in w1.paths if p[3] == "stop"]
                exits = [p for p in w1.paths if p[3] == "return" and _is_ok_return(p[1])]
                if not pre or not its or not exits:
                    raise _Und("segments of the loop not found")
                outer_sets = []
                for p in pre:
                    o = _outcome(pw, b, p, None, None, drawing)
                    used = None
                    if ivar is not None and ivar in p[1]:
                        ci, cc = o[3].int_form(p[1][ivar])
                        if ci != 0:
                            raise _Und("initial loop index")
                        used = cc
                    o = (o[0], o[1], used, o[3])
                    if _match(o, spec["prefix"]) is None:
                        problems.append("before the loop: %s" % _show_outcome(o))
                    # loop-invariant locals set before the loop (named, never assigned in it)
                    inv = {}
                    for k_, t_ in p[1].items():
                        if k_ in (pw.Walk.CALLS, "(*self).x", "(*self).y", ivar) or not re.match(r"^[a-z_][a-z0-9_]*$", k_ or ""):
                            continue
                        if _assigned_in(b, body, k_):
                            continue
                        try:
                            inv[k_] = {("abs",) + a[1:] if isinstance(a, tuple) else a + "0": c for a, c in o[3].form(t_).items()}
                        except _Und:
                            pass
                    outer_sets.append(inv)
                for seg, paths, variants in (("one iteration", its, spec["iteration"]), ("after the last group", exits, spec["exit"])):
                    for p in paths:
                        for inv in (outer_sets or [None]):
                            o = _outcome(pw, b, p, ivar, inv, drawing)
                            if seg != "one iteration" and not o[3].npop:
                                # the index variable is dead after the loop: operands are identified by their offsets alone
                                o = (o[0], o[1], None, o[3])
                            if _match(o, variants) is None:
                                problems.append("%s: %s" % (seg, _show_outcome(o)))
                                break
            decided += 1
            if problems:
                run.fail(rule, key, "CharStringParser::%s does not build the path the Type 2 specification assigns to the operator: %s" % (fn, "; ".join(sorted(set(problems))[:3])),
                         "%s:%s" % (b.file, b.line))
            else:
                run.ok(rule, "%s: drawing calls, current point and operand count equal the specification on every path" % fn)
        except _Und as e:
            decided -= 0
            run.notes.append("%s: %s not decided (%s)" % (rule, fn, e))
    if floors:
        run.floor(rule, "operator handlers decided", decided, 17)


def _index_var(b, body):
    """name of the usize local that indexes `at` inside the loop and is assigned in it"""
    for l in range(b.arg_count + 1, len(b.locals)):
        nm = b.local_name(l)
        if nm and b.local_ty(l) == "usize" and _assigned_in(b, body, nm):
            return nm
    return None


def _assigned_in(b, body, name):
    for bi in body:
        for st in b.stmts(bi):
            if st["k"] == "assign" and not st["p"]["p"] and b.local_name(st["p"]["l"]) == name:
                return True
        t = b.term(bi)
        if t["k"] == "call" and not t["dest"]["p"] and b.local_name(t["dest"]["l"]) == name:
            return True
    return False


def _flex1_choice(pw, b, path, tag, F):
    """the path that moves x (tag dx) must be the one on which |sum dx| > |sum dy| holds, the other its negation"""
    conds = path[0]
    want_dx = _lf(*[(_A(k), 1) for k in (0, 2, 4, 6, 8)])
    want_dy = _lf(*[(_A(k), 1) for k in (1, 3, 5, 7, 9)])
    for d, v in conds:
        d = sym.strip(d)
        if d[0] != "bin" or d[1] not in ("Gt", "Lt", "Ge", "Le"):
            continue
        sides = []
        for s_ in (d[2], d[3]):
            s_ = sym.strip(s_)
            if s_[0] == "call" and (s_[4] or s_[1] or "").endswith("::abs") and len(s_[2]) == 1:
                try:
                    sides.append(F.form(s_[2][0]))
                except _Und:
                    sides.append(None)
            else:
                sides.append(None)
        if None in sides:
            continue
        truth = not (v == 0)
        op = d[1]
        l, r = sides
        if op in ("Lt", "Le"):
            l, r, op = r, l, {"Lt": "Gt", "Le": "Ge"}[op]
        if not truth:
            l, r, op = r, l, {"Gt": "Ge", "Ge": "Gt"}[op]
        # now: l op r holds on this path
        if tag == "dx":
            ok = (l == want_dx and r == want_dy and op == "Gt")
        else:
            ok = (l == want_dy and r == want_dx and op == "Ge")
        if not ok:
            return "flex1 takes the last operand as %s when |%s| %s |%s|" % (tag, _fmt(l), ">" if op == "Gt" else ">=", _fmt(r))
        return None
    return None


def check(run, fx, tier, floors=True):
    import speclayout
    speclayout.rule_layouts(run, fx, "T18-LAYOUT", ["cff"], floors)
    import zipalign
    zipalign.rule_zip(run, fx, "T18-Z", select=(lambda b: b.file.startswith("src/cff")) if floors else None, floors=floors, floor_n=3)
    if floors or any(b.path.endswith("::visit_impl") for b in fx.bodies):
        t18_vsi(run, fx)
        t18_mask(run, fx)
        t18_stack(run, fx, floors)
    if floors:
        # a charstring without its own vsindex blends with its Private DICT's: the DICTs must still be unstripped when charstrings are instanced
        import rules_C12
        rules_C12.r12_pdo(run, fx)
    t18_ops(run, fx, floors)
    dom = t18_vop(run, fx, floors)
    t18_disp(run, fx, dom, floors)
    t18_bias(run, fx, floors)
    t18_lim(run, fx, floors)
    t18_vis(run, fx, floors)
    # the outline builder only exists with the `outline` feature: fail closed on the configurations that have it, skip where it is compiled out
    if (floors and run.config in (None, "prince", "default")) or any("CharStringParser::<'_, B>::parse_" in b.path for b in fx.bodies):
        t18_path(run, fx, floors)
    recursion.run_rule(run, fx, "C01-a", lambda f: any("cff::charstring" in p or "cff::cff2" in p or "cff::outline" in p for p in f.local_paths),
                       floors_n=1 if floors else None)
