//! Per-instance call graph: monomorphisation-style worklist from every non-generic local
//! function, then polymorphic roots for generic local functions nothing instantiates.
use crate::body::{dp, instance_kind, path};
use crate::json::J;
use rustc_data_structures::fx::FxHashMap;
use rustc_hir::def::DefKind;
use rustc_hir::def_id::{DefId, LOCAL_CRATE};
use rustc_middle::mir::*;
use rustc_middle::ty::adjustment::PointerCoercion;
use rustc_middle::ty::print::with_no_trimmed_paths;
use rustc_middle::ty::{self, EarlyBinder, GenericArgs, Instance, InstanceKind, TyCtxt, TypingEnv};

#[derive(Clone, Copy, PartialEq, Eq, Hash)]
struct Key<'tcx> {
    inst: Instance<'tcx>,
    /// Some(root) for nodes analysed polymorphically under root's param-env
    poly: Option<DefId>,
}

struct Node {
    j: Vec<(&'static str, J)>,
    edges: Vec<J>,
    consts: Vec<J>,
}

struct G<'tcx> {
    tcx: TyCtxt<'tcx>,
    ids: FxHashMap<Key<'tcx>, usize>,
    leaf_ids: FxHashMap<String, usize>,
    nodes: Vec<Node>,
    work: Vec<(usize, Key<'tcx>)>,
    unresolved: usize,
}

/// structured type: string plus tuple components (recursively)
fn ty_struct<'tcx>(tcx: TyCtxt<'tcx>, t: ty::Ty<'tcx>) -> J {
    let mut o = vec![("s", J::s(crate::body::ty_s(t)))];
    if let ty::Tuple(ts) = t.kind() {
        o.push(("tuple", J::Arr(ts.iter().map(|x| ty_struct(tcx, x)).collect())));
    }
    J::Obj(o)
}

fn args_j<'tcx>(args: ty::GenericArgsRef<'tcx>) -> J {
    J::Arr(args.iter().map(|a| J::s(with_no_trimmed_paths!(format!("{}", a)))).collect())
}

impl<'tcx> G<'tcx> {
    fn node(&mut self, key: Key<'tcx>) -> usize {
        if let Some(&i) = self.ids.get(&key) {
            return i;
        }
        let tcx = self.tcx;
        let did = key.inst.def_id();
        let i = self.nodes.len();
        let kind = instance_kind(&key.inst);
        let has_mir = match key.inst.def {
            InstanceKind::Item(d) => tcx.is_mir_available(d) && !tcx.is_foreign_item(d),
            InstanceKind::Intrinsic(_) | InstanceKind::Virtual(..) => false,
            _ => true,
        };
        let mut j = vec![
            ("id", J::u(i)),
            ("path", J::s(path(tcx, did))),
            ("dp", J::s(dp(tcx, did))),
            ("args", args_j(key.inst.args)),
            ("kind", J::s(kind)),
            ("local", J::Bool(did.krate == LOCAL_CRATE)),
            ("mir", J::Bool(has_mir)),
        ];
        if key.poly.is_some() {
            j.push(("poly", J::Bool(true)));
        }
        // evaluated associated consts / normalised associated types of the impl this instance's
        // method belongs to (monomorphic local trait-impl methods only)
        if key.poly.is_none() && did.krate == LOCAL_CRATE && matches!(key.inst.def, InstanceKind::Item(_)) {
            if let Some(imp) = tcx.impl_of_assoc(did) {
                if tcx.impl_opt_trait_ref(imp).is_some() {
                    let n_impl = tcx.generics_of(imp).count();
                    if n_impl <= key.inst.args.len() {
                        let impl_args = tcx.mk_args(&key.inst.args[..n_impl]);
                        let env = TypingEnv::fully_monomorphized();
                        let self_ty0 = tcx.type_of(imp).instantiate(tcx, impl_args);
                        let self_ty = tcx.try_normalize_erasing_regions(env, self_ty0).unwrap_or(self_ty0.skip_norm_wip());
                        j.push(("self_ty", ty_struct(tcx, self_ty)));
                        let mut av = vec![];
                        for a in tcx.associated_items(imp).in_definition_order() {
                            match tcx.def_kind(a.def_id) {
                                DefKind::AssocConst { .. } => {
                                    let cty = tcx.type_of(a.def_id).instantiate(tcx, impl_args).skip_norm_wip();
                                    let uv = rustc_middle::mir::UnevaluatedConst { def: a.def_id, args: impl_args, promoted: None };
                                    let c = Const::Unevaluated(uv, cty);
                                    let mut val = J::Null;
                                    if cty.is_integral() || cty.is_bool() {
                                        if let Some(si) = c.try_eval_scalar_int(tcx, env) {
                                            let size = si.size();
                                            let bits = si.to_bits(size);
                                            val = J::Int(if cty.is_signed() { size.sign_extend(bits) as i128 } else { bits as i128 });
                                        }
                                    }
                                    av.push(J::Obj(vec![("name", J::s(a.name().to_string())), ("kind", J::s("const")), ("val", val)]));
                                }
                                DefKind::AssocTy => {
                                    if tcx.generics_of(a.def_id).own_params.is_empty() {
                                        let t = tcx.type_of(a.def_id).instantiate(tcx, impl_args);
                                        if let Ok(t) = tcx.try_normalize_erasing_regions(env, t) {
                                            av.push(J::Obj(vec![("name", J::s(a.name().to_string())), ("kind", J::s("type")), ("ty", ty_struct(tcx, t))]));
                                        }
                                    }
                                }
                                _ => {}
                            }
                        }
                        j.push(("assoc", J::Arr(av)));
                    }
                }
            }
        }
        if let InstanceKind::DropGlue(_, Some(t)) = key.inst.def {
            j.push(("drop_ty", J::s(crate::body::ty_s(t))));
        }
        self.nodes.push(Node { j, edges: vec![], consts: vec![] });
        self.ids.insert(key, i);
        if has_mir {
            self.work.push((i, key));
        }
        i
    }

    fn leaf(&mut self, label: String, kind: &'static str) -> usize {
        if let Some(&i) = self.leaf_ids.get(&label) {
            return i;
        }
        let i = self.nodes.len();
        self.nodes.push(Node {
            j: vec![
                ("id", J::u(i)),
                ("path", J::s(label.clone())),
                ("dp", J::s(label.clone())),
                ("args", J::Arr(vec![])),
                ("kind", J::s(kind)),
                ("local", J::Bool(false)),
                ("mir", J::Bool(false)),
            ],
            edges: vec![],
            consts: vec![],
        });
        self.leaf_ids.insert(label, i);
        i
    }

    fn process(&mut self, id: usize, key: Key<'tcx>) {
        let tcx = self.tcx;
        let inst = key.inst;
        let env = match key.poly {
            None => TypingEnv::fully_monomorphized(),
            Some(root) => TypingEnv::post_analysis(tcx, root),
        };
        let body = tcx.instance_mir(inst.def);
        let local = inst.def_id().krate == LOCAL_CRATE;
        for (bb, data) in body.basic_blocks.iter_enumerated() {
            for st in &data.statements {
                if let StatementKind::Assign(b) = &st.kind {
                    if let Rvalue::Cast(CastKind::PointerCoercion(pc, _), op, _) = &b.1 {
                        let oty = op.ty(&body.local_decls, tcx);
                        let Ok(oty) = inst.try_instantiate_mir_and_normalize_erasing_regions(tcx, env, EarlyBinder::bind(oty)) else { continue };
                        let target = match (pc, oty.kind()) {
                            (PointerCoercion::ReifyFnPointer(..), ty::FnDef(def, args)) => {
                                Instance::try_resolve(tcx, env, *def, args).ok().flatten()
                            }
                            (PointerCoercion::ClosureFnPointer(_), ty::Closure(def, args)) => {
                                Some(Instance::resolve_closure(tcx, *def, args, ty::ClosureKind::FnOnce))
                            }
                            _ => None,
                        };
                        if let Some(t) = target {
                            let to = self.node(Key { inst: t, poly: key.poly });
                            self.nodes[id].edges.push(J::Arr(vec![J::u(to), J::u(bb.as_usize()), J::s("reify")]));
                        }
                    }
                }
            }
            let Some(term) = &data.terminator else { continue };
            let func = match &term.kind {
                TerminatorKind::Call { func, .. } => func,
                TerminatorKind::TailCall { func, .. } => func,
                _ => continue,
            };
            let fty = func.ty(&body.local_decls, tcx);
            let fty = match inst.try_instantiate_mir_and_normalize_erasing_regions(tcx, env, EarlyBinder::bind(fty)) {
                Ok(t) => t,
                Err(_) => {
                    self.unresolved += 1;
                    let to = self.leaf(format!("unnormalizable:{}", with_no_trimmed_paths!(format!("{}", fty))), "unresolved");
                    self.nodes[id].edges.push(J::Arr(vec![J::u(to), J::u(bb.as_usize()), J::s("call")]));
                    continue;
                }
            };
            match fty.kind() {
                ty::FnDef(def, args) => match Instance::try_resolve(tcx, env, *def, args) {
                    Ok(Some(callee)) => {
                        let to = match callee.def {
                            InstanceKind::Virtual(d, _) => self.leaf(format!("dyn:{}", path(tcx, d)), "virtual"),
                            _ => self.node(Key { inst: callee, poly: key.poly }),
                        };
                        self.nodes[id].edges.push(J::Arr(vec![J::u(to), J::u(bb.as_usize()), J::s("call")]));
                    }
                    _ => {
                        // call through a type parameter of a polymorphic root: user supplied code
                        if key.poly.is_none() {
                            self.unresolved += 1;
                        }
                        let label = format!("extern:{}", with_no_trimmed_paths!(tcx.def_path_str_with_args(*def, args)));
                        let to = self.leaf(label, "extern");
                        self.nodes[id].edges.push(J::Arr(vec![J::u(to), J::u(bb.as_usize()), J::s("call")]));
                    }
                },
                _ => {
                    let to = self.leaf("indirect:fnptr".to_string(), "indirect");
                    self.nodes[id].edges.push(J::Arr(vec![J::u(to), J::u(bb.as_usize()), J::s("call")]));
                }
            }
        }
        // evaluated constants that depend on the instance's substitutions (local defs only)
        if local {
            let mut seen: Vec<String> = vec![];
            for c in body.required_consts() {
                if let Const::Unevaluated(u, cty) = c.const_ {
                    if u.promoted.is_some() {
                        continue;
                    }
                    let Ok(cc) = inst.try_instantiate_mir_and_normalize_erasing_regions(tcx, env, EarlyBinder::bind(c.const_)) else { continue };
                    let label = with_no_trimmed_paths!(format!("{}", cc));
                    if seen.contains(&label) {
                        continue;
                    }
                    seen.push(label.clone());
                    let mut val = J::Null;
                    if cty.is_integral() || cty.is_bool() {
                        if let Some(si) = cc.try_eval_scalar_int(tcx, env) {
                            let size = si.size();
                            let bits = si.to_bits(size);
                            val = J::Int(if cty.is_signed() { size.sign_extend(bits) as i128 } else { bits as i128 });
                        }
                    }
                    let sargs = match cc {
                        Const::Unevaluated(u2, _) => args_j(u2.args),
                        _ => J::Null,
                    };
                    self.nodes[id].consts.push(J::Obj(vec![
                        ("def", J::s(path(tcx, u.def))),
                        ("args", sargs),
                        ("val", val),
                    ]));
                }
            }
        }
    }

    fn drain(&mut self) {
        while let Some((id, key)) = self.work.pop() {
            self.process(id, key);
        }
    }
}

pub fn export_instances(tcx: TyCtxt<'_>) -> J {
    let mut g = G { tcx, ids: FxHashMap::default(), leaf_ids: FxHashMap::default(), nodes: vec![], work: vec![], unresolved: 0 };
    let mut keys: Vec<_> = tcx.mir_keys(()).iter().copied().collect();
    keys.sort_by_key(|k| dp(tcx, k.to_def_id()));
    let mut roots = 0usize;
    for ldid in &keys {
        let did = ldid.to_def_id();
        if !matches!(tcx.def_kind(did), DefKind::Fn | DefKind::AssocFn) {
            continue;
        }
        if !tcx.is_mir_available(did) {
            continue;
        }
        if tcx.generics_of(did).requires_monomorphization(tcx) {
            continue;
        }
        let args = GenericArgs::for_item(tcx, did, |param, _| match param.kind {
            ty::GenericParamDefKind::Lifetime => tcx.lifetimes.re_erased.into(),
            _ => unreachable!("non-generic root has a type parameter"),
        });
        let inst = Instance::new_raw(did, args);
        g.node(Key { inst, poly: None });
        roots += 1;
    }
    g.drain();
    let mono_nodes = g.nodes.len();
    // polymorphic roots: local generic fns with no monomorphic instance
    let mut covered: std::collections::HashSet<DefId> = std::collections::HashSet::new();
    for k in g.ids.keys() {
        covered.insert(k.inst.def_id());
    }
    let mut poly_roots = 0usize;
    for ldid in &keys {
        let did = ldid.to_def_id();
        if !matches!(tcx.def_kind(did), DefKind::Fn | DefKind::AssocFn) {
            continue;
        }
        if !tcx.is_mir_available(did) || covered.contains(&did) {
            continue;
        }
        let args = GenericArgs::identity_for_item(tcx, did);
        let args = tcx.erase_and_anonymize_regions(args);
        let inst = Instance::new_raw(did, args);
        g.node(Key { inst, poly: Some(did) });
        poly_roots += 1;
        g.drain();
    }
    let mut nodes = vec![];
    let mut n_edges = 0usize;
    for n in g.nodes {
        let mut j = n.j;
        n_edges += n.edges.len();
        j.push(("edges", J::Arr(n.edges)));
        if !n.consts.is_empty() {
            j.push(("consts", J::Arr(n.consts)));
        }
        nodes.push(J::Obj(j));
    }
    J::Obj(vec![
        ("roots", J::u(roots)),
        ("poly_roots", J::u(poly_roots)),
        ("mono_nodes", J::u(mono_nodes)),
        ("unresolved", J::u(g.unresolved)),
        ("n_edges", J::u(n_edges)),
        ("nodes", J::Arr(nodes)),
    ])
}
